#!/venv/bin/python
"""Mutation audit (DESIGN.md section 3.11): applies each patch under mutants/ and seeded/ to a scratch
copy of /repo (outside /repo and /verif), checks that the unit tests still pass, that the demonstration
(if any) fails, and runs the checks against the scratch copy (PREGEX_RV_SRC).

usage: tools/audit.py [--all-checks] [--tier quick] <dir-with-patch.diff>...
       tools/audit.py --everything          (all of mutants/* mutants/controls/* seeded/*)
writes audit/mutation_report.json
"""
import glob
import json
import os
import shutil
import subprocess
import sys
import tempfile
import time

VERIF = os.path.dirname(os.path.dirname(os.path.abspath(__file__)))
REPO = '/repo'
ALL = ['C%02d' % i for i in range(1, 21)]


def run(cmd, **kw):
    return subprocess.run(cmd, capture_output=True, text=True, **kw)


def audit_one(d, tier, all_checks, seed=0):
    meta = json.load(open(os.path.join(d, 'meta.json'))) if os.path.exists(os.path.join(d, 'meta.json')) else {}
    breaks = meta.get('breaks')
    tmp = tempfile.mkdtemp(prefix='audit_')
    res = {'mutant': os.path.relpath(d, VERIF), 'breaks': breaks, 'what': meta.get('what')}
    try:
        shutil.copytree(os.path.join(REPO, 'src'), os.path.join(tmp, 'src'))
        shutil.copytree(os.path.join(REPO, 'tests'), os.path.join(tmp, 'tests'))
        r = run(['patch', '-p1', '-s', '-i', os.path.join(d, 'patch.diff')], cwd=tmp)
        if r.returncode != 0:
            res['error'] = 'patch does not apply: ' + (r.stdout + r.stderr)[-300:]
            return res
        env = dict(os.environ, PYTHONPATH=os.path.join(tmp, 'src'), PYTHONDONTWRITEBYTECODE='1')
        r = run(['/venv/bin/python', '-W', 'ignore', '-m', 'pytest', '-q', '-p', 'no:cacheprovider', 'tests'], cwd=tmp, env=env)
        res['unit_tests'] = (r.stdout.strip().splitlines() or ['?'])[-1]
        demo = [f for f in ('demo.py', 'demo_test.py') if os.path.exists(os.path.join(d, f))]
        if demo:
            r = run(['/venv/bin/python', '-W', 'ignore', os.path.join(d, demo[0])], cwd=tmp, env=env, timeout=300)
            res['demo_exit_with_change'] = r.returncode
            env0 = dict(os.environ, PYTHONPATH=os.path.join(REPO, 'src'), PYTHONDONTWRITEBYTECODE='1')
            r = run(['/venv/bin/python', '-W', 'ignore', os.path.join(d, demo[0])], cwd=tmp, env=env0, timeout=300)
            res['demo_exit_without_change'] = r.returncode
        checks = ALL if (all_checks or breaks is None) else sorted(set(meta.get('expected_to_fire') or [breaks]))
        res['checks'] = {}
        envc = dict(os.environ, PREGEX_RV_SRC=os.path.join(tmp, 'src'), VERIF_SEED=str(seed))
        for c in checks:
            t0 = time.time()
            r = run([os.path.join(VERIF, 'check'), c, tier], cwd=VERIF, env=envc, timeout=3600)
            lines = r.stdout.strip().splitlines()
            viol = [l for l in lines if l.startswith('VIOLATION')]
            first = ''
            for i, l in enumerate(lines):
                if l.startswith('VIOLATION') and i + 1 < len(lines):
                    first = lines[i + 1].strip()[:240]
                    break
            res['checks'][c] = {'exit': r.returncode, 'violations': len(viol), 'first': first, 'wall_s': round(time.time() - t0, 1),
                                'last': lines[-1][:200] if lines else ''}
        if breaks is None:
            res['verdict'] = 'silent' if all(v['exit'] == 0 for v in res['checks'].values()) else 'FALSE-ALARM'
        else:
            own = res['checks'].get(breaks, {}).get('exit')
            res['verdict'] = 'caught' if own == 1 else ('caught-by-other' if any(v['exit'] == 1 for v in res['checks'].values()) else 'MISSED')
        return res
    finally:
        shutil.rmtree(tmp, ignore_errors=True)


def main(argv):
    tier = 'quick'
    all_checks = False
    seed = 0
    outname = 'mutation_report.json'
    dirs = []
    i = 0
    while i < len(argv):
        a = argv[i]
        if a == '--tier':
            i += 1
            tier = argv[i]
        elif a == '--all-checks':
            all_checks = True
        elif a == '--seed':
            i += 1
            seed = int(argv[i])
        elif a == '--out':
            i += 1
            outname = argv[i]
        elif a == '--everything':
            dirs += sorted(glob.glob(os.path.join(VERIF, 'mutants', '*'))) + sorted(glob.glob(os.path.join(VERIF, 'mutants', 'controls', '*'))) \
                + sorted(glob.glob(os.path.join(VERIF, 'seeded', '*')))
        else:
            dirs.append(os.path.abspath(a))
        i += 1
    dirs = [d for d in dirs if os.path.exists(os.path.join(d, 'patch.diff'))]
    out = []
    for d in dirs:
        r = audit_one(d, tier, all_checks, seed)
        r['seed'] = seed
        out.append(r)
        print('%-55s breaks=%-5s tests=%-22s demo=%s/%s -> %s  %s' % (
            r['mutant'], r.get('breaks'), (r.get('unit_tests') or '')[:22], r.get('demo_exit_with_change', '-'), r.get('demo_exit_without_change', '-'),
            r.get('verdict', r.get('error')), {c: v['exit'] for c, v in r.get('checks', {}).items()} if len(r.get('checks', {})) <= 4 else
            {c: v['exit'] for c, v in r.get('checks', {}).items() if v['exit'] != 0}), flush=True)
    os.makedirs(os.path.join(VERIF, 'audit'), exist_ok=True)
    path = os.path.join(VERIF, 'audit', outname)
    old = []
    if os.path.exists(path):
        try:
            old = json.load(open(path))
        except Exception:
            old = []
    keep = [o for o in old if o['mutant'] not in {r['mutant'] for r in out} and os.path.exists(os.path.join(VERIF, o['mutant'], 'patch.diff'))]
    json.dump(sorted(keep + out, key=lambda r: r['mutant']), open(path, 'w'), indent=1)


if __name__ == '__main__':
    main(sys.argv[1:])
