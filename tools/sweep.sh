#!/bin/bash
# usage: tools/sweep.sh <tier> <seed>...   runs every check; prints one line per check
tier=$1; shift
for seed in "$@"; do
  for c in C01 C02 C03 C04 C05 C06 C07 C08 C09 C10 C11 C12 C13 C14 C15 C16 C17 C18 C19 C20; do
    s=$(date +%s)
    VERIF_SEED=$seed ./check $c $tier > out_$c.$tier.$seed.txt 2>&1
    rc=$?
    echo "seed=$seed $c $tier exit=$rc $(( $(date +%s) - s ))s $(grep -c '^VIOLATION' out_$c.$tier.$seed.txt) viol | $(tail -1 out_$c.$tier.$seed.txt | cut -c1-160)"
  done
done
