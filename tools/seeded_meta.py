#!/venv/bin/python
"""(re)writes seeded/<id>/meta.json from notes.md and audit/mutation_report.json"""
import glob, json, os, re
VERIF = os.path.dirname(os.path.dirname(os.path.abspath(__file__)))
rep = {r['mutant']: r for r in json.load(open(os.path.join(VERIF, 'audit', 'mutation_report.json')))}
for d in sorted(glob.glob(os.path.join(VERIF, 'seeded', '*'))):
    name = os.path.basename(d)
    meta = json.load(open(os.path.join(d, 'meta.json')))
    notes = open(os.path.join(d, 'notes.md')).read() if os.path.exists(os.path.join(d, 'notes.md')) else ''
    needs = ''
    m = re.search(r'(?is)(needed to manifest|what is needed|to manifest|what it needs|needs to manifest|what it takes)[^\n]*\n?(.*?)(\n\s*\n|\n- \*\*Why|\n\* Why|\Z)', notes)
    if m:
        needs = (m.group(0)).strip()[:900]
    if meta.get('needs') in (None, '', 'see notes.md'):
        meta['needs'] = needs or 'see notes.md'
    meta['ran'] = [
        'patch -p1 < patch.diff on a scratch copy of /repo (src + tests) outside /repo and /verif',
        'PYTHONPATH=<copy>/src /venv/bin/python -m pytest -q tests   -> must stay 689 passed',
        'PYTHONPATH=<copy>/src python demo.py -> exit 1; PYTHONPATH=/repo/src python demo.py -> exit 0',
        'PREGEX_RV_SRC=<copy>/src ./check %s quick -> must exit 1 with a VIOLATION line' % meta['breaks'],
        '(tools/audit.py does all of this and removes the copy)']
    r = rep.get('seeded/' + name)
    if r:
        meta['audit'] = {'unit_tests': r.get('unit_tests'), 'demo_exit_with_change': r.get('demo_exit_with_change'),
                         'demo_exit_without_change': r.get('demo_exit_without_change'), 'verdict': r.get('verdict'),
                         'checks': {c: {'exit': v['exit'], 'first_violation': v.get('first')} for c, v in r.get('checks', {}).items()}}
    json.dump(meta, open(os.path.join(d, 'meta.json'), 'w'), indent=1, ensure_ascii=False)
print('updated', len(glob.glob(os.path.join(VERIF, 'seeded', '*'))))
