#!/venv/bin/python
"""Generates the mutation-audit patches under /verif/mutants/<name>/ (patch.diff + meta.json).

Each mutant is a small realistic edit of manoss96/pregex that keeps the 689 unit tests green but
breaks one of the given properties (DESIGN.md Appendix B).  `controls/` holds test-passing edits
that do NOT break any property: every check must stay silent on them.

usage: tools/mkmutants.py        (works on a scratch copy of /repo under a temp dir, removes it)
"""
import json
import os
import shutil
import subprocess
import sys
import tempfile

VERIF = os.path.dirname(os.path.dirname(os.path.abspath(__file__)))
REPO = '/repo'
PRE, CLS, GRP, ESS = 'src/pregex/core/pre.py', 'src/pregex/core/classes.py', 'src/pregex/core/groups.py', 'src/pregex/meta/essentials.py'

M = []


def mutant(name, prop, checks, what, needs, edits, control=False):
    M.append(dict(name=name, prop=prop, checks=checks, what=what, needs=needs, edits=edits, control=control))


# ---- C01
mutant('c01_escape_first_only', 'C01', ['C01'], '__escape escapes only the first occurrence of each metacharacter',
       'a literal with a repeated metacharacter',
       [(PRE, 'pattern = pattern.replace(c, f"\\\\{c}")', 'pattern = pattern.replace(c, f"\\\\{c}", 1)')])
mutant('c01_newline_unescaped', 'C01', ['C01'], '_to_pregex wraps a str containing a newline with escape=False',
       'a str operand containing a newline together with a metacharacter',
       [(PRE, '            return Pregex(pre, escape=True)', "            return Pregex(pre, escape='\\n' not in pre)")])
mutant('c01_followed_by_long_literal', 'C01', ['C01'], 'followed_by wraps a str of length >= 3 with escape=False',
       'a metacharacter literal of length >= 3 in the assertion slot of followed_by',
       [(PRE, '''        pre = __class__._to_pregex(pre)
        if pre._get_type() == _Type.Empty:
            return self
        return __class__(
            f"{self._assert_conditional_group()}(?={pre})",''',
         '''        pre = Pregex(pre, escape=False) if isinstance(pre, str) and len(pre) > 2 else __class__._to_pregex(pre)
        if pre._get_type() == _Type.Empty:
            return self
        return __class__(
            f"{self._assert_conditional_group()}(?={pre})",''')])
# ---- C02
mutant('c02_enclose_no_group', 'C02', ['C02'], 'enclose stops group-wrapping the enclosing pattern',
       'Enclose(x, <alternation>)',
       [(PRE, '        pre = __class__._to_pregex(pre)._concat_conditional_group()\n        pattern = __class__.__join(',
         '        pre = str(__class__._to_pregex(pre))\n        pattern = __class__.__join(')])
mutant('c02_line_end_no_group', 'C02', ['C02'], 'match_at_line_end uses str(self) instead of the assertion-grouped text',
       'MatchAtLineEnd over an alternation',
       [(PRE, '        return __class__(f"{self._assert_conditional_group()}$", escape=False)', '        return __class__(f"{self}$", escape=False)')])
# ---- C03 / C11
mutant('c03_repr_keeps_double_backslash', 'C03', ['C03', 'C11'], '__repr__ keeps the backslash in front of an escaped control character (exported text is another regex)',
       'a pattern with a backslash directly before a newline / tab / other non-printable character',
       [(PRE, '            return match.group(0) if c.isprintable() else repr(c)[1:-1]', '            return match.group(0) if c.isprintable() else match.group(0)[:-1] + repr(c)[1:-1]')])
# ---- C04
mutant('c04_inverted_bounds', 'C04', ['C04', 'C03'], 'at_least_at_most accepts m = n - 1 (emits {3,2})', 'inverted bounds that differ by one',
       [(PRE, '        elif m < n:\n            message = "The value of parameter \\"m\\" can\'t be"', '        elif m < n - 1:\n            message = "The value of parameter \\"m\\" can\'t be"')])
mutant('c04_lazy_at_least_dropped', 'C04', ['C04'], 'at_least(n >= 2) ignores is_greedy=False for operands that need grouping',
       'lazy AtLeast(n>=2) of a multi-character operand',
       [(PRE, '''                f"{self._quantify_conditional_group()}{{{n},}}{'' if is_greedy else '?'}",''',
         '''                f"{self._quantify_conditional_group()}{{{n},}}{'' if is_greedy or self._quantify_conditional_group() != str(self) else '?'}",''')])
# ---- C05
mutant('c05_named_capture_of_empty', 'C05', ['C05'], 'a *named* capture of the empty pattern no longer returns it', 'Capture(Pregex(), name)',
       [(PRE, '''        if self.__type == _Type.Empty:
            return self
        elif self.__type == _Type.Group and not self.__pattern.startswith(('(?(', '(?P=')):
            if self.__pattern.startswith('(?:'):''',
         '''        if self.__type == _Type.Empty and name is None:
            return self
        elif self.__type == _Type.Group and not self.__pattern.startswith(('(?(', '(?P=')):
            if self.__pattern.startswith('(?:'):''')])
mutant('c05_not_preceded_by_empty_on_empty', 'C05', ['C05'], 'not_preceded_by(empty) on an empty receiver returns the receiver instead of raising',
       'NotPrecededBy(Pregex(), Pregex())',
       [(PRE, '''        pre = __class__._to_pregex(pre)
        if pre._get_type() == _Type.Empty:
            raise _ex.EmptyNegativeAssertionException()
        if not __class__.__is_fixed_width(pre):
            raise _ex.NonFixedWidthPatternException(pre)
        pattern = f"(?<!{pre}){self._assert_conditional_group()}"''',
         '''        pre = __class__._to_pregex(pre)
        if pre._get_type() == _Type.Empty:
            if self._get_type() == _Type.Empty:
                return self
            raise _ex.EmptyNegativeAssertionException()
        if not __class__.__is_fixed_width(pre):
            raise _ex.NonFixedWidthPatternException(pre)
        pattern = f"(?<!{pre}){self._assert_conditional_group()}"''')])
# ---- C06
mutant('c06_anybutfrom_no_dash_escape', 'C06', ['C06'], "AnyButFrom stops escaping '-'", "AnyButFrom with '-' between two other characters",
       [(CLS, '''        chars = tuple(c if isinstance(c, str) else __class__._to_char(c) for c in chars)
        chars = tuple(f"\\\\{c}" if c in __class__._to_escape else c for c in chars)
        super().__init__(f"[^{''.join(chars)}]", is_negated=True)''',
         '''        chars = tuple(c if isinstance(c, str) else __class__._to_char(c) for c in chars)
        chars = tuple(f"\\\\{c}" if c in __class__._to_escape and c != '-' else c for c in chars)
        super().__init__(f"[^{''.join(chars)}]", is_negated=True)''')])
mutant('c06_anybetween_equal_accepted', 'C06', ['C06'], 'AnyBetween(a, a) accepted', 'equal range endpoints',
       [(CLS, '''        if ord(start) >= ord(end):
            raise _ex.InvalidRangeException(start, end)
        start = f"\\\\{start}" if start in __class__._to_escape else start
        end = f"\\\\{end}" if end in __class__._to_escape else end
        super().__init__(f"[{start}-{end}]", is_negated=False)''',
         '''        if ord(start) > ord(end):
            raise _ex.InvalidRangeException(start, end)
        start = f"\\\\{start}" if start in __class__._to_escape else start
        end = f"\\\\{end}" if end in __class__._to_escape else end
        super().__init__(f"[{start}-{end}]", is_negated=False)''')])
# ---- C07
mutant('c07_reduce_ranges_keeps_end_j', 'C07', ['C07'], 'reduce_ranges keeps end_j instead of max(end_i, end_j)', 'union where one range contains the other',
       [(CLS, '                            ranges[i] = start_i, max(end_i, end_j)', '                            ranges[i] = start_i, end_j')])
mutant('c07_double_negation_word', 'C07', ['C07'], '~ of a negated class re-negates only when the class has at most 3 pieces',
       '~~A for a class with more than three pieces',
       [(CLS, '''        s, rs = '' if self.__is_negated else '^', '^' if self.__is_negated else \'\'''',
         '''        if self.__is_negated and self.__verbose.count('-') > 3:
            return self
        s, rs = '' if self.__is_negated else '^', '^' if self.__is_negated else \'\'''')])
# ---- C08
mutant('c08_capture_strips_every_noncapturing_marker', 'C08', ['C08', 'C01'], "capture of a (?:...) group removes every '?:' in the text, not the first",
       "Capture(Group(x)) where x contains the characters '?:' (e.g. a nested group or a literal)",
       [(PRE, "                pattern = self.__pattern.replace('?:', '', 1)", "                pattern = self.__pattern.replace('?:', '')")])
mutant('c08_rename_keeps_old_name_when_nested', 'C08', ['C08'], 'renaming a named capture that contains another named capture keeps the old name',
       'Capture(Capture(.. named inner .., "x"), "y")',
       [(PRE, '''                if pattern.startswith('(?P'):
                    pattern = _re.sub''', '''                if pattern.startswith('(?P') and pattern.count('(?P<') > 1:
                    pass
                elif pattern.startswith('(?P'):
                    pattern = _re.sub''')])
# ---- C09
mutant('c09_anchor_search', 'C09', ['C09'], 'the bare-anchor recogniser also fires for any two-character text ending in an anchor character',
       'two-character literals ending in ^ or $',
       [(PRE, '''            elif _re.fullmatch(r"\\^|\\$|\\\\A|\\\\Z", pattern) is not None:''', '''            elif _re.search(r"(?:\\^|\\$|\\\\A|\\\\Z)$", pattern) is not None:''')])
mutant('c09_negative_lookahead_nonrepeatable', 'C09', ['C09'], 'a standalone negative lookaround is typed non-repeatable',
       'a repeating quantifier over NotFollowedBy(Pregex(), x)',
       [(PRE, "                return _Type.Assertion, lookaround.group(1) == '!'", "                return _Type.Assertion, False")])
# ---- C10
mutant('c10_enclosed_by_skips_width_check_for_groups', 'C10', ['C10'], 'enclosed_by skips the width check when the assertion is a group',
       'EnclosedBy(x, Group/Capture of a variable-width pattern)',
       [(PRE, '''        if not __class__.__is_fixed_width(pre):
            raise _ex.NonFixedWidthPatternException(pre)
        return __class__(
            f"(?<={pre}){self._assert_conditional_group()}(?={pre})",''',
         '''        if pre._get_type() != _Type.Group and not __class__.__is_fixed_width(pre):
            raise _ex.NonFixedWidthPatternException(pre)
        return __class__(
            f"(?<={pre}){self._assert_conditional_group()}(?={pre})",''')])
# ---- C11
mutant('c11_compiled_has_match_uses_match', 'C11', ['C11'], 'compiled path of has_match uses .match instead of .search', 'has_match after compile() on a text where the match is not at position 0',
       [(PRE, '            if self.__compiled is None else self.__compiled.search(source))', '            if self.__compiled is None else self.__compiled.match(source))')])
mutant('c11_discard_keeps_stale', 'C11', ['C11', 'C20'], 'compile() of a long pattern stores a compiled object of the first 64 characters',
       'patterns longer than 64 characters used after compile()',
       [(PRE, '        self.__compiled = _re.compile(self.__pattern, flags=self.__flags)',
         '        pattern = self.__pattern\n        self.__compiled = _re.compile(pattern if len(pattern) <= 64 or pattern[:64].count("(") else pattern[:64], flags=self.__flags)')])
# ---- C12
mutant('c12_relative_named_first_only', 'C12', ['C12'], 'relative positions of named captures are shifted only for the first named group',
       'relative_to_match=True with two or more named groups in a match that does not start at 0',
       [(PRE, '''            groups = dict()
            for k, v in match.groupdict().items():
                if include_empty or (v != ''):
                    start, end = match.span(k)
                    if relative_to_match and start > -1:''',
         '''            groups = dict()
            for k, v in match.groupdict().items():
                if include_empty or (v != ''):
                    start, end = match.span(k)
                    if relative_to_match and start > -1 and not groups:''')])
mutant('c12_include_empty_drops_none', 'C12', ['C12'], 'include_empty=False also drops groups that did not participate (None)',
       'optional groups with include_empty=False',
       [(PRE, "                tuple(group for group in match.groups() if group != '')", "                tuple(group for group in match.groups() if group)")])
# ---- C13
mutant('c13_split_skips_empty_matches', 'C13', ['C13'], 'split_by_match advances past empty matches', 'patterns that can match the empty string',
       [(PRE, '''        for _, start, end in self.iterate_matches_and_pos(source):
            split_list.append(source[index:start])
            index = end
        split_list.append(source[index:])
        return split_list


    def split_by_capture''', '''        for _, start, end in self.iterate_matches_and_pos(source):
            split_list.append(source[index:start])
            index = max(end, start + 1)
        split_list.append(source[index:])
        return split_list


    def split_by_capture''')])
mutant('c13_replace_dotall_only', 'C13', ['C13'], 'replace passes only DOTALL (line anchors change meaning)', 'multi-line texts with ^ / $ patterns',
       [(PRE, '        return _re.sub(str(self), repl, source, count, flags=self.__flags)', '        return _re.sub(str(self), repl, source, count, flags=_re.DOTALL)')])
# ---- C14
mutant('c14_exact_match_strips_newline', 'C14', ['C14'], 'is_exact_match(path) strips a trailing newline of the file', 'files ending in a newline',
       [(PRE, '''        if is_path:
            source = self.__extract_text(source)
        return bool(_re.fullmatch(''', '''        if is_path:
            source = self.__extract_text(source).rstrip('\\n')
        return bool(_re.fullmatch(''')])
mutant('c14_left_window_off_by_one_at_start', 'C14', ['C14'], 'context window: left edge uses max(start - n_left, 1) when n_left exceeds start',
       'a match closer to the text start than n_left',
       [(PRE, '            yield source[max(start - n_left, 0):min(end + n_right, len(source))]',
         '            yield source[max(start - n_left, 0 if n_left <= start else min(1, start)):min(end + n_right, len(source))]')])
# ---- C15
mutant('c15_fourth_digit_nine', 'C15', ['C15'], "Integer: away from the range's own prefixes the fourth digit may not be 9",
       'numerals of at least four digits whose fourth digit is 9 and whose first three digits are neither the start nor the end prefix',
       [(ESS, '''                    _asr.NotPrecededBy(
                        _cl.AnyDigit(),
                        *[p for p in (p_start, p_end) if p._get_type() != _pre._Type.Empty]''',
         '''                    _asr.NotPrecededBy(
                        _cl.AnyDigit() if i != 3 else _cl.AnyBetween('0', '8'),
                        *[p for p in (p_start, p_end) if p._get_type() != _pre._Type.Empty]''')])
# ---- C16
mutant('c16_no_integer_part_for_start_one', 'C16', ['C16'], "Decimal: the 'no integer part' alternative is also offered when start == 1", ".5 against Decimal(1, ...)",
       [(ESS, '''        integer_part = Integer(start, end, include_sign, is_extensible)
        if start == 0:''', '''        integer_part = Integer(start, end, include_sign, is_extensible)
        if start <= 1:''')])
# ---- C17
mutant('c17_base13_loses_digit', 'C17', ['C17'], 'Numeral: base 13 loses its last digit', 'base 13 numerals containing c/C',
       [(ESS, '            for i in range(2, base + 1):', '            for i in range(2, base + 1 if base != 13 else base):')])
mutant('c17_word_max_six', 'C17', ['C17'], 'Word: max_chars == 6 becomes 7', 'Word(max_chars=6) on a 7-letter word',
       [(ESS, '        pre = pre.at_least_at_most(n=min_chars, m=max_chars)\n        super().__init__(pre, is_extensible)\n\n\nclass WordContains',
         '        pre = pre.at_least_at_most(n=min_chars, m=max_chars + 1 if max_chars == 6 else max_chars)\n        super().__init__(pre, is_extensible)\n\n\nclass WordContains')])
# ---- C18
mutant('c18_octet_254', 'C18', ['C18'], 'IPv4: 25[0-5] becomes 25[0-4]', 'the octet value 255',
       [(ESS, "'5' + (any_digit_up_to_four | '5')", "'5' + any_digit_up_to_four")])
mutant('c18_ipv6_seven_groups_after_colons', 'C18', ['C18'], "IPv6: '::' followed by seven groups no longer accepted", 'addresses of the form ::a:b:c:d:e:f:g',
       [(ESS, '(_qu.AtLeastAtMost(hex_group + ":", n=0, m=6-i) if i < 6 else empty)+ \\', '(_qu.AtLeastAtMost(hex_group + ":", n=0, m=6-i if i else 5) if i < 6 else empty)+ \\')])
# ---- C19
mutant('c19_day_32', 'C19', ['C19'], 'Date: dd accepts 32', 'the day value 32',
       [(ESS, "either_zero_or_one.preceded_by('3')", "(either_zero_or_one | '2').preceded_by('3')" )], control=True)
mutant('c19_month_13', 'C19', ['C19'], 'Date: mm accepts 13', 'the month value 13',
       [(ESS, "'1' + either_zero_or_one.either('2')", "'1' + either_zero_or_one.either('2').either('3')")])
# ---- C20
mutant('c20_concat_caches_on_operand', 'C20', ['C20'], 'concat() with an alternation argument rewrites the argument into its grouped form in place',
       'an alternation object reused after having been concatenated once',
       [(PRE, '''        pattern = self._concat_conditional_group()
        pre = pre._concat_conditional_group()
''', '''        pattern = self._concat_conditional_group()
        if pre._get_type() == _Type.Alternation and pre.__compiled is None:
            pre.__pattern = pre._concat_conditional_group()
            pre.__type = _Type.Group
        pre = pre._concat_conditional_group()
''')])

# ---- negative controls: test-passing edits that do not break any property
mutant('ctl_extra_group_on_concat', None, [], 'an extra (?:...) around quantifier operands on concatenation', '-',
       [(PRE, '        _Type.Quantifier: (False, True, False),', '        _Type.Quantifier: (True, True, False),')], control=True)
mutant('ctl_no_slash_escape', None, [], "dropping the unnecessary '/' escape of literals", '-',
       [(PRE, "for c in {'^', '$', '(', ')', '[', ']', '{', '}', '?', '+', '*', '.', '|', '/'}:", "for c in {'^', '$', '(', ')', '[', ']', '{', '}', '?', '+', '*', '.', '|'}:")], control=True)
mutant('ctl_discard_keeps_cache', None, [], 'get_compiled_pattern(discard_after=True) keeps the cache (results identical)', '-',
       [(PRE, '        if discard_after:\n            self.__compiled = None', '        if discard_after and False:\n            self.__compiled = None')], control=True)
mutant('ctl_relative_guard', None, [], 'relative positions guarded by start >= 0 instead of > -1 (equivalent)', '-',
       [(PRE, '                    if relative_to_match and start > -1:\n                        start, end = start - match.start(0), end - match.start(0)\n                    groups.append',
         '                    if relative_to_match and start >= 0:\n                        start, end = start - match.start(0), end - match.start(0)\n                    groups.append')], control=True)


def main():
    tmp = tempfile.mkdtemp(prefix='mkmut_')
    try:
        wt = os.path.join(tmp, 'wt')
        subprocess.check_call(['git', '-C', REPO, 'worktree', 'add', '-q', '--detach', wt, 'HEAD'])
        outroot = os.path.join(VERIF, 'mutants')
        os.makedirs(outroot, exist_ok=True)
        ok = 0
        for m in M:
            subprocess.check_call(['git', '-C', wt, 'checkout', '-q', '--', '.'])
            good = True
            for f, old, new in m['edits']:
                p = os.path.join(wt, f)
                s = open(p, encoding='utf-8').read()
                if s.count(old) != 1:
                    print('!! %s: pattern found %d times in %s: %r' % (m['name'], s.count(old), f, old[:70]))
                    good = False
                    break
                open(p, 'w', encoding='utf-8').write(s.replace(old, new))
            if not good:
                continue
            diff = subprocess.check_output(['git', '-C', wt, 'diff']).decode()
            env = dict(os.environ, PYTHONPATH=os.path.join(wt, 'src'), PYTHONDONTWRITEBYTECODE='1')
            r = subprocess.run(['/venv/bin/python', '-W', 'ignore', '-m', 'pytest', '-q', '-x', '-p', 'no:cacheprovider', 'tests'], cwd=wt, env=env,
                               capture_output=True, text=True)
            tail = r.stdout.strip().splitlines()[-1] if r.stdout.strip() else ''
            passed = '689 passed' in tail
            d = os.path.join(outroot, ('controls/' if m['prop'] is None else '') + m['name'])
            if not passed:
                print('!! %s: unit tests do not pass with it (%s) - not kept' % (m['name'], tail))
                shutil.rmtree(d, ignore_errors=True)
                continue
            os.makedirs(d, exist_ok=True)
            open(os.path.join(d, 'patch.diff'), 'w').write(diff)
            json.dump({'name': m['name'], 'breaks': m['prop'], 'expected_to_fire': m['checks'], 'what': m['what'], 'needs': m['needs'],
                       'unit_tests': tail, 'origin': 'hand-written for the mutation audit (DESIGN.md Appendix B)'},
                      open(os.path.join(d, 'meta.json'), 'w'), indent=1)
            ok += 1
        print('kept %d of %d mutants' % (ok, len(M)))
    finally:
        subprocess.call(['git', '-C', REPO, 'worktree', 'remove', '--force', os.path.join(tmp, 'wt')])
        shutil.rmtree(tmp, ignore_errors=True)


if __name__ == '__main__':
    main()
