#!/venv/bin/python
"""For every repaired defect (known_findings.json 'fixed:' lines): take /repo HEAD, reverse-apply that one 'fix:' commit on a
scratch copy, and run the check of the property the entry names. A fixed entry suppresses nothing, so the check must
report the violation again (exit 1). Writes audit/revert_report.json.

usage: tools/revert_audit.py [commit-prefix ...]
"""
import json
import os
import re
import shutil
import subprocess
import sys
import tempfile
import time

VERIF = os.path.dirname(os.path.dirname(os.path.abspath(__file__)))
REPO = '/repo'


def sh(cmd, **kw):
    return subprocess.run(cmd, capture_output=True, text=True, **kw)


def main():
    kf = json.load(open(os.path.join(VERIF, 'known_findings.json')))
    entries = []
    for line in kf['fixed']:
        m = re.match(r'fixed: property=(C\d\d) ([0-9a-f]{7,}) (.*)', line)
        also = re.findall(r'also (C\d\d(?:, C\d\d)*)', line)
        entries.append((m.group(1), m.group(2), m.group(3), also))
    only = sys.argv[1:]
    out = []
    for prop, commit, what, also in entries:
        if only and not any(commit.startswith(o) for o in only):
            continue
        tmp = tempfile.mkdtemp(prefix='rev_')
        rec = {'property': prop, 'commit': commit, 'what': what[:160]}
        try:
            shutil.copytree(os.path.join(REPO, 'src'), os.path.join(tmp, 'src'))
            d = sh(['git', '-C', REPO, 'diff', commit, commit + '^', '--', 'src'])
            r = subprocess.run(['patch', '-p1', '-s', '--no-backup-if-mismatch'], input=d.stdout, text=True, capture_output=True, cwd=tmp)
            if r.returncode != 0:
                rec['status'] = 'reverse patch does not apply cleanly on HEAD (later fixes touch the same lines)'
                rec['patch_output'] = (r.stdout + r.stderr)[-300:]
                out.append(rec)
                print(json.dumps(rec))
                continue
            env = dict(os.environ, PREGEX_RV_SRC=os.path.join(tmp, 'src'), VERIF_SEED='0')
            t0 = time.time()
            r = sh([os.path.join(VERIF, 'check'), prop, 'quick'], cwd=VERIF, env=env, timeout=3600)
            rec['exit'] = r.returncode
            rec['wall'] = round(time.time() - t0, 1)
            rec['first'] = next((l.strip()[:300] for l in r.stdout.splitlines() if l.strip().startswith('symptom=')), '')
            rec['status'] = 'reported again' if r.returncode == 1 else 'NOT reported'
        finally:
            shutil.rmtree(tmp, ignore_errors=True)
        out.append(rec)
        print(json.dumps(rec), flush=True)
    if not only:
        json.dump(out, open(os.path.join(VERIF, 'audit', 'revert_report.json'), 'w'), indent=1)
    print('%d entries, %d reported again, %d not reported, %d not applicable' % (
        len(out), sum(1 for r in out if r.get('exit') == 1), sum(1 for r in out if r.get('exit') in (0, 2)), sum(1 for r in out if 'exit' not in r)))


if __name__ == '__main__':
    main()
