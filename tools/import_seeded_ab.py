#!/venv/bin/python
"""imports a round-4 deliverable pair (mutantA/B.diff, demoA/B.py, notesA/B.md) into seeded/<prop>_agent4a|b"""
import json, os, shutil, sys
VERIF = os.path.dirname(os.path.dirname(os.path.abspath(__file__)))
wt, prop, rnd = sys.argv[1], sys.argv[2], (sys.argv[3] if len(sys.argv) > 3 else '4')
for k in 'AB':
    src = os.path.join(wt, 'mutant%s.diff' % k)
    if not os.path.exists(src):
        print('missing', src)
        continue
    d = os.path.join(VERIF, 'seeded', '%s_agent%s%s' % (prop, rnd, k.lower()))
    os.makedirs(d, exist_ok=True)
    shutil.copy(src, os.path.join(d, 'patch.diff'))
    for a, b in (('demo%s.py' % k, 'demo.py'), ('notes%s.md' % k, 'notes.md')):
        if os.path.exists(os.path.join(wt, a)):
            shutil.copy(os.path.join(wt, a), os.path.join(d, b))
    notes = open(os.path.join(d, 'notes.md')).read() if os.path.exists(os.path.join(d, 'notes.md')) else ''
    json.dump({'name': os.path.basename(d), 'breaks': prop, 'expected_to_fire': [prop],
               'what': (notes.strip().splitlines() or [''])[0].lstrip('# ').strip(), 'needs': 'see notes.md',
               'origin': 'independent sub-agent (round %s, two changes per agent) given only the property text and a scratch worktree' % rnd,
               'verified': 'tools/audit.py: patch applies to /repo HEAD, 689 unit tests pass with it, demo.py exits 1 with / 0 without the change'},
              open(os.path.join(d, 'meta.json'), 'w'), indent=1)
    print('imported', d)
