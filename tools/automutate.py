#!/venv/bin/python
"""First-order mutation sampling of /repo/src/pregex (DESIGN.md 3.11, "automatic mutants").

Generates syntactic mutants with a handful of classic operators (comparison / boolean / constant / condition /
slice-bound changes), keeps those with which the repository's 689 unit tests still pass ("test-surviving"), and runs
the checks that are responsible for the mutated code against each survivor (scratch copy + PREGEX_RV_SRC).
A survivor that no check catches is listed for manual review: either it is equivalent / touches nothing a property
states, or it is a miss.

usage: tools/automutate.py gen                      -> audit/auto/mutants.json (all candidates)
       tools/automutate.py survive [N] [seed]       -> runs the unit tests on a random sample of N candidates (16 at a time)
       tools/automutate.py check [N]                -> runs the responsible checks on N not yet checked survivors
       tools/automutate.py report
"""
import ast
import warnings
warnings.filterwarnings("ignore")
import json
import os
import random
import shutil
import subprocess
import sys
import tempfile
import time
from concurrent.futures import ThreadPoolExecutor

VERIF = os.path.dirname(os.path.dirname(os.path.abspath(__file__)))
REPO = '/repo'
OUT = os.path.join(VERIF, 'audit', 'auto')
FILES = ['src/pregex/core/pre.py', 'src/pregex/core/classes.py', 'src/pregex/core/operators.py', 'src/pregex/core/quantifiers.py',
         'src/pregex/core/groups.py', 'src/pregex/core/assertions.py', 'src/pregex/meta/essentials.py']

CMP = {ast.Lt: '<=', ast.LtE: '<', ast.Gt: '>=', ast.GtE: '>', ast.Eq: '!=', ast.NotEq: '==', ast.Is: 'is not', ast.IsNot: 'is',
       ast.In: 'not in', ast.NotIn: 'in'}
CMPTXT = {ast.Lt: '<', ast.LtE: '<=', ast.Gt: '>', ast.GtE: '>=', ast.Eq: '==', ast.NotEq: '!=', ast.Is: 'is', ast.IsNot: 'is not',
          ast.In: 'in', ast.NotIn: 'not in'}


def seg(lines, node):
    """(start offset, end offset) of a node in the joined source"""
    return node.lineno, node.col_offset, node.end_lineno, node.end_col_offset


class Src:
    def __init__(self, text):
        self.text = text
        self.lines = text.split('\n')
        self.offs = [0]
        for l in self.lines:
            self.offs.append(self.offs[-1] + len(l.encode('utf-8')) + 1)
        self.b = text.encode('utf-8')

    def span(self, node):
        a = self.offs[node.lineno - 1] + node.col_offset
        b = self.offs[node.end_lineno - 1] + node.end_col_offset
        return a, b

    def get(self, a, b):
        return self.b[a:b].decode('utf-8')

    def replace(self, a, b, new):
        return (self.b[:a] + new.encode('utf-8') + self.b[b:]).decode('utf-8')


def enclosing(tree):
    """map line -> qualified function name"""
    out = {}

    def visit(node, prefix):
        for ch in ast.iter_child_nodes(node):
            if isinstance(ch, (ast.FunctionDef, ast.ClassDef)):
                name = prefix + ch.name
                for ln in range(ch.lineno, ch.end_lineno + 1):
                    out[ln] = name
                visit(ch, name + '.')
            else:
                visit(ch, prefix)
    visit(tree, '')
    return out


def gen_file(rel):
    text = open(os.path.join(REPO, rel), encoding='utf-8').read()
    S = Src(text)
    tree = ast.parse(text)
    fn = enclosing(tree)
    muts = []

    def add(node, a, b, new, op):
        old = S.get(a, b)
        if old == new:
            return
        muts.append({'file': rel, 'line': node.lineno, 'func': fn.get(node.lineno, '<module>'), 'op': op, 'old': old, 'new': new, 'a': a, 'b': b})
    docstrings = set()
    for node in ast.walk(tree):
        if isinstance(node, (ast.FunctionDef, ast.ClassDef, ast.Module)) and node.body and isinstance(node.body[0], ast.Expr) and \
                isinstance(getattr(node.body[0], 'value', None), ast.Constant) and isinstance(node.body[0].value.value, str):
            docstrings.add(id(node.body[0].value))
    for node in ast.walk(tree):
        if isinstance(node, ast.Compare) and len(node.ops) == 1:
            op = node.ops[0]
            if type(op) in CMP:
                # operator text lies between left operand and comparator
                a = S.span(node.left)[1]
                b = S.span(node.comparators[0])[0]
                mid = S.get(a, b)
                t = CMPTXT[type(op)]
                if t in mid:
                    i = mid.index(t)
                    add(node, a + len(mid[:i].encode()), a + len(mid[:i].encode()) + len(t), CMP[type(op)], 'cmp')
        elif isinstance(node, ast.BoolOp) and len(node.values) >= 2:
            a = S.span(node.values[0])[1]
            b = S.span(node.values[1])[0]
            mid = S.get(a, b)
            t = 'and' if isinstance(node.op, ast.And) else 'or'
            if t in mid.split():
                i = mid.index(t)
                add(node, a + len(mid[:i].encode()), a + len(mid[:i].encode()) + len(t), 'or' if t == 'and' else 'and', 'bool')
        elif isinstance(node, ast.UnaryOp) and isinstance(node.op, ast.Not):
            a, b = S.span(node)
            oa, ob = S.span(node.operand)
            add(node, a, b, '(' + S.get(oa, ob) + ')', 'not')
        elif isinstance(node, ast.Constant) and isinstance(node.value, int) and not isinstance(node.value, bool) and id(node) not in docstrings:
            a, b = S.span(node)
            if 0 <= node.value <= 4294967296:
                add(node, a, b, str(node.value + 1), 'const+1')
                if node.value > 0:
                    add(node, a, b, str(node.value - 1), 'const-1')
        elif isinstance(node, ast.Constant) and isinstance(node.value, bool):
            a, b = S.span(node)
            add(node, a, b, str(not node.value), 'bool-const')
        elif isinstance(node, (ast.If, ast.IfExp, ast.While)):
            a, b = S.span(node.test)
            add(node, a, b, 'True', 'cond-true')
            add(node, a, b, 'False', 'cond-false')
        elif isinstance(node, ast.BinOp) and isinstance(node.op, (ast.Add, ast.Sub)) and \
                isinstance(node.right, ast.Constant) and isinstance(node.right.value, int):
            a = S.span(node.left)[1]
            b = S.span(node.right)[0]
            mid = S.get(a, b)
            t = '+' if isinstance(node.op, ast.Add) else '-'
            if t in mid:
                i = mid.index(t)
                add(node, a + i, a + i + 1, '-' if t == '+' else '+', 'arith')
    # --- second generation of operators (ids continue after the first 1581): regex literals and statements
    import re as _re_

    def regex_args(call):
        f = call.func
        if isinstance(f, ast.Attribute) and isinstance(f.value, ast.Name) and f.value.id in ('_re', 're') and \
                f.attr in ('sub', 'fullmatch', 'search', 'match', 'findall', 'finditer', 'compile', 'split', 'subn'):
            cands = list(call.args[:1]) + [k.value for k in call.keywords if k.arg == 'pattern']
            return [a for a in cands if isinstance(a, ast.Constant) and isinstance(a.value, str)]
        return []
    if os.environ.get('AUTOMUTATE_GEN2'):
        for node in ast.walk(tree):
            if isinstance(node, ast.Call):
                for a_ in regex_args(node):
                    a, b = S.span(a_)
                    lit = S.get(a, b)
                    # work on the source text of the literal (prefix + quotes kept), one character deleted at a time
                    m_ = _re_.match(r"""([rRfFbB]*)('{3}|"{3}|'|")""", lit)
                    if not m_ or 'f' in m_.group(1).lower():
                        continue
                    q0 = m_.end()
                    q1 = len(lit) - len(m_.group(2))
                    body = lit[q0:q1]
                    seen = set()
                    for i in range(len(body)):
                        nb = body[:i] + body[i + 1:]
                        new = lit[:q0] + nb + lit[q1:]
                        try:
                            val = ast.literal_eval(new)
                            _re_.compile(val)
                        except Exception:
                            continue
                        if val in seen or val == a_.value:
                            continue
                        seen.add(val)
                        add(a_, a, b, new, 'regex-del')
                    for old_, new_ in (('+', '*'), ('*', '+'), ('+?', '+'), ('*?', '*'), ('(?<!', '(?<='), ('(?!', '(?='), ('(?<=', '(?<!'), ('(?=', '(?!')):
                        i = body.find(old_)
                        if i >= 0:
                            new = lit[:q0] + body[:i] + new_ + body[i + len(old_):] + lit[q1:]
                            try:
                                _re_.compile(ast.literal_eval(new))
                            except Exception:
                                continue
                            add(a_, a, b, new, 'regex-swap')
            # statement deletion: simple statements inside functions (not docstrings, not the only statement of a block)
            if isinstance(node, (ast.FunctionDef, ast.If, ast.For, ast.While, ast.With, ast.Try)):
                for field in ('body', 'orelse', 'finalbody'):
                    blk = getattr(node, field, None)
                    if not isinstance(blk, list) or len(blk) < 2:
                        continue
                    for st_ in blk:
                        if isinstance(st_, (ast.Assign, ast.AugAssign, ast.Expr)) and id(getattr(st_, 'value', None)) not in docstrings and \
                                not (isinstance(st_, ast.Expr) and isinstance(st_.value, ast.Constant)):
                            a, b = S.span(st_)
                            add(st_, a, b, 'pass', 'stmt-del')
                        elif isinstance(st_, ast.Raise):
                            a, b = S.span(st_)
                            add(st_, a, b, 'pass', 'raise-del')
                        elif isinstance(st_, ast.Return) and st_.value is not None and not (isinstance(st_.value, ast.Name) and st_.value.id == 'self') \
                                and fn.get(st_.lineno, '').split('.')[-1] in ('optional', 'indefinite', 'one_or_more', 'exactly', 'at_least', 'at_most', 'at_least_at_most',
                                                                             'concat', 'either', 'enclose', 'capture', 'group', 'followed_by', 'preceded_by', 'enclosed_by',
                                                                             'not_followed_by', 'not_preceded_by', 'not_enclosed_by', 'match_at_start', 'match_at_end',
                                                                             'match_at_line_start', 'match_at_line_end'):
                            a, b = S.span(st_.value)
                            add(st_, a, b, 'self', 'return-self')
    return muts


def cmd_gen():
    os.makedirs(OUT, exist_ok=True)
    p = os.path.join(OUT, 'mutants.json')
    old = json.load(open(p)) if os.path.exists(p) else []
    known = {(m['file'], m['a'], m['b'], m['new']) for m in old}
    allm = list(old)
    for rel in FILES:
        ms = [m for m in gen_file(rel) if (m['file'], m['a'], m['b'], m['new']) not in known]
        for m in ms:
            m['id'] = len(allm)
            allm.append(m)
        print(rel, len(ms), 'new')
    json.dump(allm, open(p, 'w'), indent=0)
    print('total', len(allm))


def apply_to(tmp, m):
    shutil.copytree(os.path.join(REPO, 'src'), os.path.join(tmp, 'src'))
    p = os.path.join(tmp, m['file'])
    S = Src(open(p, encoding='utf-8').read())
    assert S.get(m['a'], m['b']) == m['old'], (S.get(m['a'], m['b']), m['old'])
    open(p, 'w', encoding='utf-8').write(S.replace(m['a'], m['b'], m['new']))


def run_tests(m):
    tmp = tempfile.mkdtemp(prefix='am_')
    try:
        apply_to(tmp, m)
        try:
            compile(open(os.path.join(tmp, m['file']), encoding='utf-8').read(), m['file'], 'exec')
        except SyntaxError:
            return 'syntax'
        shutil.copytree(os.path.join(REPO, 'tests'), os.path.join(tmp, 'tests'))
        env = dict(os.environ, PYTHONPATH=os.path.join(tmp, 'src'), PYTHONDONTWRITEBYTECODE='1')
        try:
            r = subprocess.run(['/venv/bin/python', '-W', 'ignore', '-m', 'pytest', '-q', '-x', '-p', 'no:cacheprovider', 'tests'], cwd=tmp, env=env,
                               capture_output=True, text=True, timeout=180)
        except subprocess.TimeoutExpired:
            return 'timeout'
        return 'survives' if r.returncode == 0 else 'killed-by-tests'
    finally:
        shutil.rmtree(tmp, ignore_errors=True)


def load_state():
    p = os.path.join(OUT, 'state.json')
    return json.load(open(p)) if os.path.exists(p) else {}


def save_state(st):
    json.dump(st, open(os.path.join(OUT, 'state.json'), 'w'), indent=0)


def cmd_survive(n, seed):
    allm = json.load(open(os.path.join(OUT, 'mutants.json')))
    st = load_state()
    rnd = random.Random(seed)
    todo = [m for m in allm if str(m['id']) not in st]
    rnd.shuffle(todo)
    todo = todo[:n]
    t0 = time.time()
    with ThreadPoolExecutor(max_workers=14) as ex:
        for m, res in zip(todo, ex.map(run_tests, todo)):
            st[str(m['id'])] = {'tests': res}
    save_state(st)
    c = {}
    for v in st.values():
        c[v['tests']] = c.get(v['tests'], 0) + 1
    print('tested', len(todo), 'in %.0fs' % (time.time() - t0), c)


def responsible(m):
    """checks responsible for the code a mutant touches, most specific first (None: no property covers it)"""
    f, fn = m['file'], m['func']
    low = fn.lower()
    if f.endswith('classes.py'):
        if any(k in low for k in ('__or', '__ror', '__sub', '__rsub', '__invert', 'extract_classes', 'modify_classes', 'split_range')):
            return ['C07', 'C06']
        return ['C06', 'C07']
    if f.endswith('essentials.py'):
        if 'Email' in fn or 'HttpUrl' in fn or fn.startswith(('Text', 'NonWhitespace', 'Whitespace')):
            return None
        for key, cs in (('Integer', ['C15', 'C16']), ('Decimal', ['C16']), ('Numeral', ['C17', 'C16']), ('Word', ['C17']), ('IPv4', ['C18']),
                        ('IPv6', ['C18']), ('Date', ['C19'])):
            if key in fn:
                return cs
        return None
    if f.endswith('operators.py'):
        return ['C02', 'C05']
    if f.endswith('quantifiers.py'):
        return ['C04', 'C09']
    if f.endswith('groups.py'):
        return ['C03', 'C08', 'C02']
    if f.endswith('assertions.py'):
        return ['C10', 'C09', 'C05']
    # pre.py
    if 'print_pattern' in low:
        return None
    if 'with_context' in low or 'extract_text' in low:
        return ['C14']
    if 'captures' in low:
        return ['C12']
    if 'split_by' in low or 'replace' in low:
        return ['C13']
    if any(k in low for k in ('get_compiled', '.compile', 'purge')):
        return ['C11', 'C20']
    if any(k in low for k in ('has_match', 'is_exact_match', 'iterate_match', 'get_matches')):
        return ['C11', 'C12']
    if any(k in low for k in ('optional', 'indefinite', 'one_or_more', 'exactly', 'at_least', 'at_most', '__mul__', '__rmul__')):
        return ['C04', 'C05']
    if any(k in low for k in ('preceded', 'followed', 'enclosed', 'fixed_width')):
        return ['C10', 'C05', 'C09']
    if 'match_at' in low:
        return ['C09', 'C02']
    if low.endswith(('.capture', '.group')):
        return ['C08', 'C03']
    if 'concat' in low or 'either' in low or 'enclose' in low or '__join' in low or '__add__' in low or '__radd__' in low:
        return ['C02', 'C05']
    if '_to_pregex' in low or 'escape' in low or '__init__' in low:
        return ['C03', 'C01']
    if 'infer_type' in low:
        return ['C02', 'C09', 'C08', 'C04']
    return ['C02', 'C09']


def run_checks(m, checks):
    tmp = tempfile.mkdtemp(prefix='amc_')
    res = {}
    try:
        apply_to(tmp, m)
        env = dict(os.environ, PREGEX_RV_SRC=os.path.join(tmp, 'src'), VERIF_SEED='0')
        for c in checks:
            t0 = time.time()
            cv = os.environ.get('AUTOMUTATE_VERIF', VERIF)      # a copy of /verif, so that its out/ and evidence/ are not disturbed
            r = subprocess.run([os.path.join(cv, 'check'), c, 'quick'], cwd=cv, env=env, capture_output=True, text=True, timeout=3600)
            res[c] = {'exit': r.returncode, 'wall': round(time.time() - t0, 1),
                      'first': next((l[:240] for l in r.stdout.splitlines() if l.strip().startswith('symptom=')), '')}
            if r.returncode == 1:
                break        # caught: no need for the remaining checks
        return res
    finally:
        shutil.rmtree(tmp, ignore_errors=True)


def cmd_check(n):
    allm = {m['id']: m for m in json.load(open(os.path.join(OUT, 'mutants.json')))}
    st = load_state()
    todo = [int(k) for k, v in st.items() if v['tests'] == 'survives' and 'checks' not in v and not allm[int(k)].get('obsolete')]
    todo.sort()
    for mid in todo[:n]:
        m = allm[mid]
        cs = responsible(m)
        if cs is None:
            st[str(mid)]['checks'] = {}
            st[str(mid)]['verdict'] = 'no-property'
        else:
            res = run_checks(m, cs)
            st[str(mid)]['checks'] = res
            st[str(mid)]['verdict'] = 'caught' if any(v['exit'] == 1 for v in res.values()) else \
                ('inconclusive' if any(v['exit'] == 2 for v in res.values()) else 'not-caught')
        save_state(st)
        print(mid, m['file'].split('/')[-1], m['line'], m['func'], m['op'], repr(m['old']), '->', repr(m['new']), '=>', st[str(mid)]['verdict'],
              {c: v['exit'] for c, v in st[str(mid)]['checks'].items()}, flush=True)


def cmd_report():
    allm = {m['id']: m for m in json.load(open(os.path.join(OUT, 'mutants.json')))}
    st = load_state()
    c, v = {}, {}
    for k, s in st.items():
        c[s['tests']] = c.get(s['tests'], 0) + 1
        if 'verdict' in s:
            v[s['verdict']] = v.get(s['verdict'], 0) + 1
    print('candidates', len(allm), 'sampled', len(st), c)
    print('survivors checked:', v)
    for k, s in sorted(st.items(), key=lambda kv: int(kv[0])):
        if s.get('verdict') in ('not-caught', 'inconclusive'):
            m = allm[int(k)]
            print('  %s #%s %s:%d %s [%s] %r -> %r  note=%s' % (s['verdict'], k, m['file'].split('/')[-1], m['line'], m['func'], m['op'], m['old'], m['new'],
                                                             s.get('note', '')))


def cmd_report_md():
    import collections
    allm = {m['id']: m for m in json.load(open(os.path.join(OUT, 'mutants.json')))}
    st = load_state()
    dp = json.load(open(os.path.join(OUT, 'diffprobe.json'))) if os.path.exists(os.path.join(OUT, 'diffprobe.json')) else {}
    tests = collections.Counter(v['tests'] for v in st.values())
    surv = {k: v for k, v in st.items() if v['tests'] == 'survives' and not allm[int(k)].get('obsolete')}
    verd = collections.Counter(v.get('verdict') for v in surv.values())
    nb = next(iter(dp.values()))['outcomes'] if dp else 0
    L = ['# First-order mutation sampling (tools/automutate.py, tools/diffprobe.py)', '',
         'Generated by `tools/automutate.py report-md` from `audit/auto/state.json` and `audit/auto/diffprobe.json`.', '',
         '* candidates (comparison / boolean / constant / condition / arithmetic mutations; deletions of single characters from regex literals, '
         'quantifier / lookaround swaps in them; deletion of statements and `raise`s; `return self` in builder methods) in `core/*.py`, `meta/essentials.py`: **%d**' % len(allm),
         "* killed by the repository's own 689 unit tests: **%d**; test run timed out: %d; **test-surviving: %d** (%d more became obsolete when late fixes rewrote their lines)" % (
             tests['killed-by-tests'], tests['timeout'], len(surv), tests['survives'] - len(surv)),
         '* of the survivors: **caught by a quick check responsible for the mutated code: %d**; in code no property covers (Email, HttpUrl, print_pattern): %d; caught by no check: %d' % (
             verd['caught'], verd['no-property'], verd['not-caught'] + verd.get('inconclusive', 0)),
         '', '## Survivors that no check catches', '',
         'Each went through the differential probe (one battery of %d public-API calls on the unchanged tree and on the mutant; outcome = emitted pattern or exception type; '
         'differing patterns are compared by canonical parse tree, then by probe texts, character classes by their sets outside the shorthand-only code points). '
         'Mutants of the matching API, which the battery does not exercise, are classified by hand.' % nb,
         '', '| # | site | mutation | calls with a different language / exception type | classification |', '|---|---|---|---|---|']
    for k, v in sorted(surv.items(), key=lambda kv: int(kv[0])):
        if v.get('verdict') not in ('not-caught', 'inconclusive'):
            continue
        m = allm[int(k)]
        nd = dp.get(k, {}).get('n_diff', {})
        note = v.get('note') or ('equivalent: no call of the battery has a different outcome' if not nd.get('different') and not nd.get('same-language') else
                                 'equivalent: emitted texts differ (%d calls) but denote the same language' % nd.get('same-language', 0) if not nd.get('different') else 'REVIEW')
        L.append('| %s | %s:%d `%s` | %s `%s` -> `%s` | %s | %s |' % (k, m['file'].split('/')[-1], m['line'], m['func'], m['op'], m['old'][:40].replace('|', '\\|').replace('\n', ' '),
                                                                  m['new'][:40].replace('|', '\\|'), nd.get('different', 0) if k in dp else 'n/a', note))
    L += ['', '## Misses found by this sampling (caught now)', '']
    for k, v in sorted(surv.items(), key=lambda kv: int(kv[0])):
        if 'missed at first' in (v.get('note') or ''):
            m = allm[int(k)]
            L.append('* #%s %s:%d `%s` %s `%s` -> `%s`: %s (now: %s)' % (k, m['file'].split('/')[-1], m['line'], m['func'], m['op'], m['old'][:50], m['new'][:50], v['note'], v.get('verdict')))
    open(os.path.join(OUT, 'REPORT.md'), 'w').write('\n'.join(L) + '\n')
    print('\n'.join(L[:8]))
    print(sum(1 for l in L if 'REVIEW' in l), 'rows to review')


if __name__ == '__main__':
    cmd = sys.argv[1] if len(sys.argv) > 1 else 'report'
    if cmd == 'gen':
        cmd_gen()
    elif cmd == 'survive':
        cmd_survive(int(sys.argv[2]) if len(sys.argv) > 2 else 200, int(sys.argv[3]) if len(sys.argv) > 3 else 0)
    elif cmd == 'check':
        cmd_check(int(sys.argv[2]) if len(sys.argv) > 2 else 10)
    elif cmd == 'report-md':
        cmd_report_md()
    elif cmd == 'one':
        # tools/automutate.py one <id> <check>...   (re-run named checks on one mutant; result printed, state untouched)
        allm = {m['id']: m for m in json.load(open(os.path.join(OUT, 'mutants.json')))}
        m = allm[int(sys.argv[2])]
        print(m['file'], m['line'], m['func'], m['op'], repr(m['old']), '->', repr(m['new']))
        print(run_checks(m, sys.argv[3:]))
    elif cmd == 'note':
        # tools/automutate.py note <id> <text>   (manual classification of a survivor that no check catches)
        st = load_state()
        st[sys.argv[2]]['note'] = ' '.join(sys.argv[3:])
        save_state(st)
    else:
        cmd_report()
