#!/venv/bin/python
"""copies a sub-agent's deliverables from its scratch worktree into /verif/seeded/<name>/"""
import json, os, shutil, subprocess, sys
VERIF = os.path.dirname(os.path.dirname(os.path.abspath(__file__)))
wt, prop, name = sys.argv[1], sys.argv[2], sys.argv[3]
round_ = sys.argv[4] if len(sys.argv) > 4 else '1'
d = os.path.join(VERIF, 'seeded', name)
os.makedirs(d, exist_ok=True)
diff = subprocess.check_output(['git', '-C', wt, 'diff', '--', 'src']).decode()
open(os.path.join(d, 'patch.diff'), 'w').write(diff)
for f in ('demo.py', 'notes.md'):
    if os.path.exists(os.path.join(wt, f)):
        shutil.copy(os.path.join(wt, f), os.path.join(d, f))
notes = open(os.path.join(d, 'notes.md')).read() if os.path.exists(os.path.join(d, 'notes.md')) else ''
json.dump({'name': name, 'breaks': prop, 'expected_to_fire': [prop], 'what': (notes.strip().splitlines() or [''])[0].lstrip('# ').strip(),
           'needs': 'see notes.md', 'origin': 'independent sub-agent (round %s) given only the property text and a scratch worktree' % round_,
           'verified': 'tools/audit.py: patch applies to /repo HEAD, 689 unit tests pass with it, demo.py exits 1 with / 0 without the change'},
          open(os.path.join(d, 'meta.json'), 'w'), indent=1)
print('imported', d, len(diff.splitlines()), 'diff lines')
