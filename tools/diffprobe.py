#!/venv/bin/python
"""Differential probe for mutants that no check catches (tools/automutate.py): evaluates one fixed battery of public-API
calls on the unchanged tree and on the mutant (PREGEX_RV_SRC) and lists the calls whose *outcome* differs.
Outcome = emitted pattern text, or the exception type name. Text differences are then classified:
 'same-language'  canonical parse trees are equal, or no probe text tells the two patterns apart
 'different'      some probe text (or the exception type / the pattern's validity) tells them apart

usage: tools/diffprobe.py battery               (run in the tree selected by PREGEX_RV_SRC; prints JSON)
       tools/diffprobe.py compare <id>...       (mutant ids from audit/auto/mutants.json; 8 at a time)
       tools/diffprobe.py all                   (every survivor whose verdict is not-caught)
"""
import json
import os
import random
import subprocess
import sys
import tempfile
import shutil
import warnings
from concurrent.futures import ThreadPoolExecutor

warnings.filterwarnings('ignore')
VERIF = os.path.dirname(os.path.dirname(os.path.abspath(__file__)))
sys.path.insert(0, VERIF)
OUT = os.path.join(VERIF, 'audit', 'auto')


def battery():
    from rv import gen as G, dsl
    from rv.interp import Interp, show
    from rv import cls as K
    out = []
    I = Interp(seed=1)
    progs = []
    progs += list(G.w3_depth1(True))
    progs += list(G.w_invalid())
    progs += [it for i, it in enumerate(G.w5_lattice('quick')) if i % 7 == 0]
    progs += list(dsl.backref_programs())
    progs += list(dsl.qseq_programs())
    progs += [it for i, it in enumerate(G.many_operand_programs()) if i % 9 == 0 and len(json.dumps(it['prog'])) < 4000]
    progs += [it for i, it in enumerate(G.deep_programs()) if i % 11 == 0]
    progs += [it for i, it in enumerate(G.meta_operand_programs()) if i % 13 == 0]
    ops = dsl.lookbehind_operands()
    for a in ops:
        for lk in ('pre', 'npre', 'lenc', 'nlenc'):
            progs.append({'prog': G.OPN(lk, G.L('x'), a), 'form': 'c'})
    r = random.Random(5)
    progs += list(G.w4_random(r, 1500))
    for it in progs:
        try:
            st, evs, text = I.run_program(it['prog'], it.get('form', 'c'))
            obs = [e.observed for e in evs][-1:] if evs else []
            out.append(['dsl', show(it['prog'])[:300] + '/' + str(it.get('form', 'c')), st if text is None else 'ok', text, obs])
        except Exception as e:
            out.append(['dsl', show(it['prog'])[:300], 'monitor:' + type(e).__name__, None, []])
    KI = K.ClsInterp(1)
    KI.scan_sample = False
    for chk in ('C06', 'C07'):
        for part in range(4):
            for i, prog in enumerate(K.programs_for(chk, 'quick', 0, part, 4)):
                if i % 5:
                    continue
                try:
                    st, evs, text, m = KI.run(prog)
                    out.append(['cls', K.show(prog)[:300], st, text, [evs[-1].get('observed')] if evs else []])
                except Exception as e:
                    out.append(['cls', K.show(prog)[:300], 'monitor:' + type(e).__name__, None, []])
    # meta constructors: grids of valid and invalid arguments
    from pregex.meta import essentials as ME

    def rec(tag, thunk):
        try:
            out.append(['meta', tag, 'ok', str(thunk()), []])
        except Exception as e:
            out.append(['meta', tag, 'exc', type(e).__name__, []])
    vals = [0, 1, 2, 3, 5, 10, -1, None, 1.5, '2', True, 70000]
    for a in vals:
        for b in vals:
            rec('Word(%r,%r)' % (a, b), lambda: ME.Word(a, b))
            rec('Numeral(10,%r,%r)' % (a, b), lambda: ME.Numeral(10, a, b))
            rec('Decimal(0,9,%r,%r)' % (a, b), lambda: ME.Decimal(0, 9, a, b))
            for cl in ('Integer', 'PositiveInteger', 'NegativeInteger', 'UnsignedInteger', 'Decimal', 'PositiveDecimal', 'NegativeDecimal', 'UnsignedDecimal'):
                rec('%s(%r,%r)' % (cl, a, b), lambda: getattr(ME, cl)(a, b))
                rec('%s(%r,%r,ext)' % (cl, a, b), lambda: getattr(ME, cl)(a, b, is_extensible=True))
    for base in (1, 2, 3, 8, 10, 11, 12, 15, 16, 17, 0, -1, None, 2.0, '10'):
        for ext in (False, True):
            rec('Numeral(%r,ext=%r)' % (base, ext), lambda: ME.Numeral(base, is_extensible=ext))
            rec('Numeral(%r,1,1,ext=%r)' % (base, ext), lambda: ME.Numeral(base, 1, 1, is_extensible=ext))
            rec('Numeral(%r,0,3,ext=%r)' % (base, ext), lambda: ME.Numeral(base, 0, 3, is_extensible=ext))
    for cl in ('Integer', 'PositiveInteger', 'NegativeInteger', 'UnsignedInteger', 'Decimal', 'PositiveDecimal', 'NegativeDecimal', 'UnsignedDecimal', 'IPv4', 'IPv6', 'Word', 'Date'):
        rec(cl + '()', lambda: getattr(ME, cl)())
        rec(cl + '(ext)', lambda: getattr(ME, cl)(is_extensible=True))
    for a, b in ((5, 120), (10, 150), (0, 1000), (99, 100), (12, 1234), (0, 0), (7, 7), (100, 999), (3, 2147483647), (0, 10 ** 15 - 1)):
        for cl in ('Integer', 'PositiveInteger', 'NegativeInteger', 'UnsignedInteger', 'Decimal', 'UnsignedDecimal'):
            rec('%s(%d,%d)' % (cl, a, b), lambda: getattr(ME, cl)(a, b))
            rec('%s(%d,%d,ext)' % (cl, a, b), lambda: getattr(ME, cl)(a, b, is_extensible=True))
    for aff in (['a'], ['a', 'b'], 'ab', [1], [None], [], ['a', 2], ['(', ')'], ['a|b', 'c'], [''], 5, None, ['a', ''], ['é']):
        for cl in ('WordContains', 'WordStartsWith', 'WordEndsWith'):
            for kw in ({}, {'is_global': False}, {'is_extensible': True}):
                rec('%s(%r,%r)' % (cl, aff, kw), lambda: getattr(ME, cl)(aff, **kw))
    from rv import meta as MT
    fm = MT.date_formats()
    for f in fm + ['dd/xx/yyyy', 'yyyy/dd/mm', '', 'DD/MM/YYYY', None, 5, ['d/m/yy', 'd/m/yy'], fm[:3], fm[::5]]:
        for ext in (False, True):
            rec('Date(%r,%r)' % (f if not isinstance(f, list) or len(f) < 4 else len(f), ext), lambda: ME.Date(f, is_extensible=ext))
    return out


def run_battery(src):
    env = dict(os.environ, PREGEX_RV_SRC=src, PYTHONDONTWRITEBYTECODE='1', PYTHONHASHSEED='0')
    r = subprocess.run(['/venv/bin/python', '-W', 'ignore', os.path.abspath(__file__), 'battery'], env=env, capture_output=True, text=True, timeout=1800, cwd=VERIF)
    try:
        return json.loads(r.stdout.strip().splitlines()[-1])
    except Exception:
        return {'error': (r.stderr or r.stdout)[-500:]}


_base = {}


def base():
    if 'b' not in _base:
        p = os.path.join(OUT, 'battery_base.json')
        _base['b'] = run_battery('/repo/src')
        json.dump(_base['b'], open(p, 'w'))
    return _base['b']


def classify(t1, t2):
    from rv import canon as C, judge as J, shadow as S
    if t1 == t2:
        return 'same'
    if t1 is None or t2 is None:
        return 'different'
    a, b = C.parse(t1), C.parse(t2)
    if bool(a.error) != bool(b.error):
        return 'different'
    if a.error and b.error:
        return 'same-language'      # both invalid (user's dangling references etc.)
    if a.key == b.key:
        return 'same-language'
    c1, e1 = C.compiles(t1)
    c2, e2 = C.compiles(t2)
    if (c1 is None) != (c2 is None):
        return 'different'
    if c1 is None:
        return 'same-language'
    rnd = random.Random(3)
    texts = set()
    for tree, raw in ((a.tree, t1), (b.tree, t2)):
        try:
            texts |= set(J.probe_texts(S.Raw(raw), tree, rnd))
        except Exception:
            pass
    for tx in texts:
        if J.behaviour(c1, tx) != J.behaviour(c2, tx):
            return 'different'
    return 'same-language'


def compare(mid):
    sys.path.insert(0, os.path.join(VERIF, 'tools'))
    import automutate as A
    allm = {m['id']: m for m in json.load(open(os.path.join(OUT, 'mutants.json')))}
    m = allm[mid]
    tmp = tempfile.mkdtemp(prefix='dp_')
    try:
        A.apply_to(tmp, m)
        got = run_battery(os.path.join(tmp, 'src'))
    finally:
        shutil.rmtree(tmp, ignore_errors=True)
    b = base()
    if isinstance(got, dict):
        return {'id': mid, 'error': got['error']}
    diffs = []
    kinds = {'same-language': 0, 'different': 0}
    for x, y in zip(b, got):
        if x[2:4] != y[2:4]:
            k = 'different' if x[2] != y[2] or x[2] not in ('ok', 'done') else classify(x[3], y[3])
            if k == 'different' and x[0] == 'cls' and x[2] == y[2] == 'done' and x[3] and y[3]:
                # character classes: equal sets outside the code points that only \d \s \w add (left open by C06/C07)
                from rv import canon as C
                s1, s2 = C.set_of_single(x[3]), C.set_of_single(y[3])
                if s1 is not None and s2 is not None and C.unmask(s1) == C.unmask(s2):
                    k = 'same-language'
            if x[2] == y[2] == 'exc':
                k = 'different' if x[3] != y[3] else 'same'
            if k == 'same':
                continue
            kinds[k] += 1
            if (k == 'different' and sum(1 for d in diffs if d[0] == 'different') < 6) or (k != 'different' and len(diffs) < 3):
                diffs.append([k, x[0], x[1][:160], x[2], (x[3] or '')[:120], y[2], (y[3] or '')[:120]])
    return {'id': mid, 'site': '%s:%d %s [%s] %r -> %r' % (m['file'].split('/')[-1], m['line'], m['func'], m['op'], m['old'][:60], m['new'][:30]),
            'outcomes': len(b), 'n_diff': kinds, 'examples': diffs}


if __name__ == '__main__':
    cmd = sys.argv[1]
    if cmd == 'battery':
        sys.stdout.write('\n' + json.dumps(battery(), default=repr) + '\n')
    else:
        if cmd == 'all':
            st = json.load(open(os.path.join(OUT, 'state.json')))
            ids = sorted(int(k) for k, v in st.items() if v.get('verdict') == 'not-caught')
        else:
            ids = [int(x) for x in sys.argv[2:]]
        base()
        res = {}
        p = os.path.join(OUT, 'diffprobe.json')
        if os.path.exists(p):
            res = json.load(open(p))
        with ThreadPoolExecutor(max_workers=8) as ex:
            for r in ex.map(compare, ids):
                res[str(r['id'])] = r
                print(json.dumps(r, ensure_ascii=False)[:1500], flush=True)
                json.dump(res, open(p, 'w'), indent=0, ensure_ascii=False)
