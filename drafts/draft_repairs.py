"""DRAFT repairs for manoss96/pregex -- NOT applied to /repo.

Validated on a scratch copy only: with all of them applied the 689 unit tests pass
and the throw-away census of DESIGN.md (depth-1 x 3 spellings, depth-2) is clean.
Each labelled block is meant to become ONE minimal, unguarded "fix:" commit in /repo,
and only after a built monitor has shown the corresponding defect (DESIGN.md section 5).

usage: python draft_repairs.py <path-to>/src/pregex/ [F1 F2 ... | B2 B3 ...]
"""
import sys
ROOT = sys.argv[1].rstrip("/") + "/"
which = set(sys.argv[2:]) or {"all"}
def on(k): return "all" in which or k in which
def patch(f, old, new, count=1):
    p = ROOT + f; s = open(p, encoding="utf-8").read(); n = s.count(old)
    assert n == count, (f, old[:60], n)
    open(p, "w", encoding="utf-8").write(s.replace(old, new))
def patch_if(key, *a, **k):
    if on(key): patch(*a, **k)

# ---------------- batch 1 (pre.py / groups.py): F1 F2 F3 F4 F5 F7 F10 F15 F16
# F1 Conditional converts and groups its operands
if on('F1'):
    patch('core/groups.py',
"""        super().__init__(name, lambda s: f"(?({s}){pre1}{'|' + str(pre2) if pre2 != None else ''})")""",
"""        pre1 = __class__._to_pregex(pre1)._assert_conditional_group()
        if pre2 is not None:
            pre2 = __class__._to_pregex(pre2)._assert_conditional_group()
        super().__init__(name, lambda s: f"(?({s}){pre1}{'|' + str(pre2) if pre2 != None else ''})")""")
# F2 class simplification honours escaped '[' and newlines
if on('F2'):
    patch('core/pre.py',
"""        pattern = _re.sub(r"\\[.+?(?<!\\\\)\\]", "[a]", pattern)""",
"""        pattern = _re.sub(r"(?<!\\\\)\\[.+?(?<!\\\\)\\]", "[a]", pattern, flags=_re.DOTALL)""")
# F3 remove_groups terminates when nothing more can be removed
if on('F3'):
    patch('core/pre.py',
"""            return temp if temp == repl else remove_groups(temp, repl)""",
"""            return temp if temp in (repl, pattern) else remove_groups(temp, repl)""")
# F4 escaped dollar is not an anchor
if on('F4'):
    patch('core/pre.py',
"""        elif _re.fullmatch(r"(?:\\^|\\\\A|\\(\\?<=.+\\)).+|.+(?:\\$|\\\\Z|\\(\\?=.+\\))",""",
"""        elif _re.fullmatch(r"(?:\\^|\\\\A|\\(\\?<=.+\\)).+|.+(?:(?<!\\\\)\\$|\\\\Z|\\(\\?=.+\\))",""")
# F5 bare anchors are non-repeatable assertions
if on('F5'):
    patch('core/pre.py',
"""            elif _re.fullmatch(r"\\\\b", pattern,
                flags=__class__.__flags | _re.IGNORECASE) is not None:
                return _Type.Assertion, True""",
"""            elif _re.fullmatch(r"\\\\b", pattern,
                flags=__class__.__flags | _re.IGNORECASE) is not None:
                return _Type.Assertion, True
            elif _re.fullmatch(r"\\^|\\$|\\\\A|\\\\Z", pattern) is not None:
                return _Type.Assertion, False""")
# F7 rename / un-capture only the outermost group
if on('F7'):
    patch('core/pre.py',
"""                    pattern = _re.sub('\\(\\?P<[^>]*>', f'(?P<{name}>', pattern)""",
"""                    pattern = _re.sub('\\(\\?P<[^>]*>', f'(?P<{name}>', pattern, count=1)""")
    patch('core/pre.py',
"""                pattern = _re.sub('\\(\\?P<[^>]*>', f'(?:', str(self))""",
"""                pattern = _re.sub('\\(\\?P<[^>]*>', f'(?:', str(self), count=1)""")
# F10 p*0, p*1 accepted for every operand
if on('F10'):
    patch('core/pre.py',
"""        if not self._is_repeatable():
            raise _ex.CannotBeRepeatedException(self)
        if not isinstance(n, int) or isinstance(n, bool):
            message = "Provided argument \\"n\\" is not an integer."
            raise _ex.InvalidArgumentTypeException(message)
        if n < 0:
            message = "Using multiplication operator with a negative integer is not allowed."
            raise _ex.InvalidArgumentValueException(message)
        if self._get_type() == _Type.Empty:
            return self
        return __class__(str(self.exactly(n)), escape=False)""",
"""        if not isinstance(n, int) or isinstance(n, bool):
            message = "Provided argument \\"n\\" is not an integer."
            raise _ex.InvalidArgumentTypeException(message)
        if n < 0:
            message = "Using multiplication operator with a negative integer is not allowed."
            raise _ex.InvalidArgumentValueException(message)
        if self._get_type() == _Type.Empty:
            return self
        return __class__(str(self.exactly(n)), escape=False)""", count=2)
# F15 named capture positions by name
if on('F15'):
    patch('core/pre.py',
"""            groups, counter = dict(), 0
            for k, v in match.groupdict().items():
                counter += 1
                if include_empty or (v != ''):
                    start, end = match.span(counter)""",
"""            groups = dict()
            for k, v in match.groupdict().items():
                if include_empty or (v != ''):
                    start, end = match.span(k)""")
# F16 context windows from the text
if on('F16'):
    patch('core/pre.py',
"""        for _, start, end in self.iterate_matches_and_pos(source, is_path):
            yield source[max(start - n_left, 0):min(end + n_right, len(source))]""",
"""        if is_path:
            source = self.__extract_text(source)
        for _, start, end in self.iterate_matches_and_pos(source):
            yield source[max(start - n_left, 0):min(end + n_right, len(source))]""")

# ---------------- B2: F6 bare lookarounds, F8 group flag / conditional+backreference capture, F9 lookbehind width via re
# F6 a lookaround standing alone is an assertion, not a group
patch_if('B2', 'core/pre.py',
"""        elif __is_group(pattern):
            return _Type.Group, True
""",
"""        elif __is_group(pattern):
            lookaround = _re.match(r"\\(\\?<?([=!])", pattern)
            if lookaround is not None:
                return _Type.Assertion, lookaround.group(1) == '!'
            return _Type.Group, True
""")
# F8b conditionals and named backreferences are not groups that can be converted
patch_if('B2', 'core/pre.py',
"""        elif self.__type == _Type.Group:
            if self.__pattern.startswith('(?:'):""",
"""        elif self.__type == _Type.Group and not self.__pattern.startswith(('(?(', '(?P=')):
            if self.__pattern.startswith('(?:'):""")
patch_if('B2', 'core/pre.py',
"""        elif self.__type == _Type.Group:
            if self.__pattern.startswith('(?P'):
                # Remove name from named capturing group.""",
"""        elif self.__type == _Type.Group and not self.__pattern.startswith(('(?(', '(?P=')):
            if self.__pattern.startswith('(?P'):
                # Remove name from named capturing group.""")
# F8a Group(Capture(..), is_case_insensitive=True) keeps the flag
patch_if('B2', 'core/pre.py',
"""                pattern = _re.sub('\\(\\?P<[^>]*>', f'(?:', str(self), count=1)""",
"""                pattern = _re.sub('\\(\\?P<[^>]*>',
                    f"(?{'i' if is_case_insensitive else ''}:", str(self), count=1)""")
patch_if('B2', 'core/pre.py',
"""                pattern = self.__pattern.replace('(', '(?:', 1)""",
"""                pattern = self.__pattern.replace('(',
                    f"(?{'i' if is_case_insensitive else ''}:", 1)""")
# F9 lookbehind width decided by re itself
OLD='''        if _re.search(_re.sub(r"\\s", "", r"""
            (?<!\\\\)(?:\\\\\\\\)*(?<!\\()(?:\\?|\\*|\\+|\\{,\\d+\\}|\\{\\d+,\\}|\\{\\d+,\\d+\\})|
            (?<!\\\\)(?:\\\\\\\\)*\\\\\\((?:\\?|\\*|\\+|\\{,\\d+\\}|\\{\\d+,\\}|\\{\\d+,\\d+\\})
        """), str(pre)) is not None:
            raise _ex.NonFixedWidthPatternException(pre)'''
NEW='''        if not __class__.__is_fixed_width(pre):
            raise _ex.NonFixedWidthPatternException(pre)'''
patch_if('B2', 'core/pre.py',OLD,NEW,count=4)
patch_if('B2', 'core/pre.py',
"""    @staticmethod
    def __extract_text(source: str) -> str:""",
"""    @staticmethod
    def __is_fixed_width(pre: 'Pregex') -> bool:
        '''
        Returns ``True`` if the provided pattern can be used within \\
        a lookbehind assertion, that is, if it has a fixed width.

        :param Pregex pre: The pattern that is to be examined.
        '''
        try:
            _re.compile(f"(?<={pre})", flags=__class__.__flags)
        except _re.error as e:
            return 'fixed-width' not in str(e)
        return True


    @staticmethod
    def __extract_text(source: str) -> str:""")

# ---------------- B3: F12 one-char collapse anchored, F-invert slicing, F11a dollar as range endpoint
# F12 one-character collapse applies to the whole class only
patch_if('B3', 'core/classes.py',
'''        simplified_pattern = _re.sub(r"\\[([^\\\\]|\\\\.)\\]", lambda m: str(__class__._to_pregex(m.group(1))) \\
            if len(m.group(1)) == 1 else m.group(1), simplified_pattern)''',
'''        simplified_pattern = _re.sub(r"\\A\\[([^\\\\]|\\\\.)\\]\\Z", lambda m: str(__class__._to_pregex(m.group(1))) \\
            if len(m.group(1)) == 1 else m.group(1), simplified_pattern, flags=_re.DOTALL)''')
# F-invert negation by slicing, not stripping
patch_if('B3', 'core/classes.py',
'''        return __class__(f"[{s}{self.__verbose.lstrip('[' + rs).rstrip(']')}]", not self.__is_negated)''',
'''        return __class__(f"[{s}{self.__verbose[len('[' + rs):-1]}]", not self.__is_negated)''')
# F11a '$' is an ordinary range endpoint
patch_if('B3', 'core/classes.py',
'''            r"(?:\\\\(?:\\[|\\]|\\^|\\$|\\-|\\/|[a-z]|\\\\)|[^\\[\\]\\^\\$\\-\\/\\\\])" + \\
            r"-(?:\\\\(?:\\[|\\]|\\^|\\$|\\-|\\/|[a-z]|\\\\)|[^\\[\\]\\^\\$\\-\\/\\\\])"''',
'''            r"(?:\\\\(?:\\[|\\]|\\^|\\$|\\-|\\/|[a-z]|\\\\)|[^\\[\\]\\^\\-\\/\\\\])" + \\
            r"-(?:\\\\(?:\\[|\\]|\\^|\\$|\\-|\\/|[a-z]|\\\\)|[^\\[\\]\\^\\-\\/\\\\])"''')

# ---------------- B4: F13 range subtraction
# F13 range subtraction: keep what lies left and right of the subtrahend, nothing else
patch_if('B4', 'core/classes.py',
'''                    if start_1 <= end_2 and end_1 >= start_2:
                        if start_1 == start_2 and end_1 == end_2:
                            ranges1.pop(i)
                            i -= 1
                            break
                        split_rng = list()
                        if start_1 <= start_2 and end_1 <= end_2:
                            split_rng.append((start_1, chr(ord(start_2) - 1)))
                        elif start_1 >= start_2 and end_1 >= end_2:
                            split_rng.append((chr(ord(end_2) + 1), end_1))
                        else:
                            split_rng.append((start_1, chr(ord(start_2) - 1)))
                            split_rng.append((chr(ord(end_2) + 1), end_1))
                        if len(split_rng) > 0:
                            ranges1.pop(i)
                            i -= 1
                            ranges1 = ranges1 + split_rng
                            break''',
'''                    if start_1 <= end_2 and end_1 >= start_2:
                        split_rng = list()
                        if start_1 < start_2:
                            split_rng.append((start_1, chr(ord(start_2) - 1)))
                        if end_1 > end_2:
                            split_rng.append((chr(ord(end_2) + 1), end_1))
                        ranges1.pop(i)
                        i -= 1
                        ranges1 = ranges1 + split_rng
                        break''')

# ---------------- B5: F11b tokens denote one character
# F11b tokens denote one character: use that character, then apply in-class escaping
patch_if('B5', 'core/classes.py',
'''    def _get_verbose_pattern(self) -> str:''',
'''    @staticmethod
    def _to_char(c: str or _pre.Pregex) -> str:
        \'\'\'
        Returns the single character that is represented by the provided \\
        string or token.

        :param str | Pregex c: Either a string of length one or a token.
        \'\'\'
        c = str(c)
        return c[1:] if len(c) == 2 and c.startswith("\\\\") else c


    def _get_verbose_pattern(self) -> str:''')
patch_if('B5', 'core/classes.py',
'''        start, end = str(start), str(end)
        if ord(start) >= ord(end):''',
'''        start, end = __class__._to_char(start), __class__._to_char(end)
        if ord(start) >= ord(end):''', count=2)
patch_if('B5', 'core/classes.py',
'''        chars = tuple((f"\\\\{c}" if c in __class__._to_escape else c) \\
            if isinstance(c, str) else str(c) for c in chars)''',
'''        chars = tuple(c if isinstance(c, str) else __class__._to_char(c) for c in chars)
        chars = tuple(f"\\\\{c}" if c in __class__._to_escape else c for c in chars)''')
patch_if('B5', 'core/classes.py',
'''        chars = tuple((f"\\{c}" if c in __class__._to_escape else c)
            if isinstance(c, str) else str(c) for c in chars)''',
'''        chars = tuple(c if isinstance(c, str) else __class__._to_char(c) for c in chars)
        chars = tuple(f"\\\\{c}" if c in __class__._to_escape else c for c in chars)''')

# ---------------- B6: F18 IPv6 bounds, F19 Date formats type
# F18 '::' stands for at least one group: at most seven explicit groups around it
patch_if('B6', 'meta/essentials.py',
'''        for i in range(9):
            pre = _op.Either(
                pre,
                (_qu.AtLeastAtMost(hex_group + ":", n=0, m=i-1) if i > 1 else empty) + \\
                (hex_group if i > 0 else empty) + \\
                "::" + \\
                (_qu.AtLeastAtMost(hex_group + ":", n=0, m=7-i) if i < 7 else empty)+ \\
                (hex_group if i < 8 else empty)
            )''',
'''        for i in range(8):
            pre = _op.Either(
                pre,
                (_qu.AtLeastAtMost(hex_group + ":", n=0, m=i-1) if i > 1 else empty) + \\
                (hex_group if i > 0 else empty) + \\
                "::" + \\
                (_qu.AtLeastAtMost(hex_group + ":", n=0, m=6-i) if i < 6 else empty)+ \\
                (hex_group if i < 7 else empty)
            )''')
# F19 a non-list formats argument is a single (possibly invalid) format
patch_if('B6', 'meta/essentials.py',
'''        if isinstance(formats, str):
            formats = [formats]''',
'''        if not isinstance(formats, list):
            formats = [formats]''')

# ---------------- B7: F14a subtraction order, F14b left-to-right class tokeniser
# F14a subtract from the ranges first, so that the characters they leave behind are subtracted too
patch_if('B7', 'core/classes.py',
'''        # 2.a. Subtract ranges2 from chars1.
        splt_ranges2 = [__class__.__split_range(rng) for rng in ranges2]
        lst_chars1 = list(chars1)

        for start, end in splt_ranges2:
            i = 0
            while i < len(lst_chars1):
                c = lst_chars1[i]
                if c.isalnum and c >= start and c <= end:
                    lst_chars1.pop(i)
                    i = -1
                i += 1
        chars1 = set(lst_chars1)

        # 2.b Subtract chars2 from chars1.
        chars1 = chars1.difference(chars2)

        # 2.c. Subtract any characters in chars2 from ranges1.
        ranges1, reduced_chars = subtract_ranges(ranges1, set(f"{c}-{c}" for c in chars2))
        chars1 = chars1.union(reduced_chars)

        # 2.d. Subtract ranges2 from ranges1.
        ranges1, reduced_chars = subtract_ranges(ranges1, ranges2)
        chars1 = chars1.union(reduced_chars)
''',
'''        # 2.a. Subtract any characters in chars2 from ranges1.
        ranges1, reduced_chars = subtract_ranges(ranges1, set(f"{c}-{c}" for c in chars2))
        chars1 = chars1.union(reduced_chars)

        # 2.b. Subtract ranges2 from ranges1.
        ranges1, reduced_chars = subtract_ranges(ranges1, ranges2)
        chars1 = chars1.union(reduced_chars)

        # 2.c. Subtract ranges2 from chars1.
        splt_ranges2 = [__class__.__split_range(rng) for rng in ranges2]
        lst_chars1 = list(chars1)

        for start, end in splt_ranges2:
            i = 0
            while i < len(lst_chars1):
                c = lst_chars1[i]
                if c.isalnum and c >= start and c <= end:
                    lst_chars1.pop(i)
                    i = -1
                i += 1
        chars1 = set(lst_chars1)

        # 2.d Subtract chars2 from chars1.
        chars1 = chars1.difference(chars2)
''')
# F14b tokenise the class text from left to right, so that an escape is never entered in the middle
patch_if('B7', 'core/classes.py',
'''        range_pattern = \\
            r"(?:\\\\(?:\\[|\\]|\\^|\\$|\\-|\\/|[a-z]|\\\\)|[^\\[\\]\\^\\-\\/\\\\])" + \\
            r"-(?:\\\\(?:\\[|\\]|\\^|\\$|\\-|\\/|[a-z]|\\\\)|[^\\[\\]\\^\\-\\/\\\\])"
        ranges = set(_re.findall(range_pattern, classes))
        classes = _re.sub(pattern=range_pattern, repl="", string=classes)
        return (ranges, set(_re.findall(r"\\\\?.", classes, flags=_re.DOTALL)))''',
'''        char_pattern = r"(?:\\\\.|[^\\\\])"
        ranges, chars = set(), set()
        for m in _re.finditer(f"({char_pattern}-{char_pattern})|{char_pattern}",
            classes, flags=_re.DOTALL):
            (chars if m.group(1) is None else ranges).add(m.group(0))
        return (ranges, chars)''')

# ---------------- B8: F17 Integer leading-zero guard at text start
# F17 the leading-zero guard must also hold at the very start of the text
patch_if('B8', 'meta/essentials.py',
"""                            *[_cl.AnyButDigit() + '0' + (i - 2) * _cl.AnyDigit() for i in range(2, i+1)]
                        )""",
"""                            *[_cl.AnyButDigit() + '0' + (i - 2) * _cl.AnyDigit() for i in range(2, i+1)],
                            *[_asr.MatchAtStart('0' + (i - 2) * _cl.AnyDigit()) for i in range(2, i+1)]
                        )""")

print('applied', sorted(which))
