"""Throw-away prototype of the shadow model + interpreter (design validation only)."""
import re, sys, warnings, itertools, collections, random
warnings.simplefilter("ignore")
sys.path.insert(0,'/tmp/probe')
import re._parser as sp
from canon import C as canon_of, norm
from pregex.core.pre import Pregex
from pregex.core import classes as CL, tokens as TK, operators as OP, quantifiers as QU, groups as GR, assertions as AS, exceptions as EX
FL = re.M|re.S
LIBEXC = tuple(v for v in vars(EX).values() if isinstance(v,type) and issubclass(v,Exception))
INF = None
def esc(s):
    out=[]
    for ch in s:
        o=ord(ch)
        if ch.isascii() and (ch.isalnum() or ch=='_'): out.append(ch)
        elif o<0x100: out.append('\\x%02x'%o)
        elif o<0x10000: out.append('\\u%04x'%o)
        else: out.append('\\U%08x'%o)
    return ''.join(out)
class N:
    def __init__(self,k,**kw): self.k=k; self.__dict__.update(kw)
    def __repr__(self): return self.k+repr({a:b for a,b in self.__dict__.items() if a!="k"})
EMPTY=N('Empty')
def g(x): return '(?:%s)'%ref(x)
def ref(x):
    k=x.k
    if k=='Empty': return ''
    if k=='Lit': return esc(x.s)
    if k=='Cls': return x.ref
    if k=='Raw': return '(?:%s)'%x.text
    if k=='Cat': return ''.join(g(i) for i in x.xs)
    if k=='Alt': return '|'.join(g(i) for i in x.xs)
    if k=='Quant':
        q='{%d,%s}'%(x.n,'' if x.m is INF else x.m)
        return g(x.x)+q+('' if x.greedy or x.n==x.m else '?')
    if k=='Cap': return ('(?P<%s>%s)'%(x.name,ref(x.x))) if x.name else '(%s)'%ref(x.x)
    if k=='Grp': return ('(?i:%s)' if x.ci else '(?:%s)')%ref(x.x)
    if k=='Anchor':
        b=g(x.x) if x.x.k!='Empty' else ''
        return {'mas':'\\A'+b,'mae':b+'\\Z','mals':'^'+b,'male':b+'$'}[x.kind]
    if k=='Bound': return x.t
    if k=='Look':
        b=g(x.x) if x.x.k!='Empty' else ''; a=ref(x.a)
        return {'fol':b+'(?=%s)'%a,'nfol':b+'(?!%s)'%a,'pre':'(?<=%s)'%a+b,'npre':'(?<!%s)'%a+b,
                'enc':'(?<=%s)'%a+b+'(?=%s)'%a,'nenc':'(?<!%s)'%a+b+'(?!%s)'%a}[x.kind]
    if k=='Backref': return '(?:\\%d)'%x.r if isinstance(x.r,int) else '(?P=%s)'%x.r
    if k=='Cond': return '(?(%s)%s%s)'%(x.name,g(x.a),('|'+g(x.b)) if x.b is not None else '')
    raise KeyError(k)
def has_anchor_poslook(x):
    if x.k=='Anchor': return True
    if x.k=='Look' and x.kind in('fol','pre','enc'): return True
    if x.k=='Raw': return None
    for v in x.__dict__.values():
        if isinstance(v,N):
            r=has_anchor_poslook(v)
            if r or r is None: return r
        if isinstance(v,list):
            for i in v:
                r=has_anchor_poslook(i)
                if r or r is None: return r
    return False
def direct_nonrep(x): return x.k=='Anchor' or (x.k=='Look' and x.kind in('fol','pre','enc'))
class Unspec(Exception): pass
class Expect(Exception):
    def __init__(s,*types): s.types=types
# ---- transfer functions
def cat(xs):
    out=[]
    for x in xs:
        if x.k=='Empty': continue
        out += x.xs if x.k=='Cat' else [x]
    return EMPTY if not out else out[0] if len(out)==1 else N('Cat',xs=out)
def alt(xs):
    if not xs: return EMPTY
    if xs[0].k=='Empty' and len(xs)>1: raise Unspec('first-empty-alt')
    out=[]
    for x in xs:
        if x.k=='Empty': continue
        out += x.xs if x.k=='Alt' else [x]
    return EMPTY if not out else out[0] if len(out)==1 else N('Alt',xs=out)
def quant(x,n,m,greedy=True):
    for v,nm in ((n,'n'),(m,'m')):
        if v is None and nm=='m': continue
        if not isinstance(v,int) or isinstance(v,bool): raise Expect(EX.InvalidArgumentTypeException)
    bad=[]
    if n<0 or (m is not None and m<0) or (m is not None and m<n): bad.append(EX.InvalidArgumentValueException)
    repeating = (m is None or m>1)
    if bad:
        if repeating and direct_nonrep(x): bad.append(EX.CannotBeRepeatedException)
        raise Expect(*bad)
    if (n,m)==(0,0): return EMPTY
    if x.k=='Empty': return EMPTY
    if (n,m)==(1,1): return x
    if repeating:
        if direct_nonrep(x): raise Expect(EX.CannotBeRepeatedException)
        hp=has_anchor_poslook(x)
        if hp or hp is None: raise Unspec('repeat-of-anchored-inside')
    return N('Quant',x=x,n=n,m=m,greedy=greedy)
def capture(x,name=None):
    if x.k=='Empty': return x
    if x.k=='Cap': return N('Cap',x=x.x,name=name if name is not None else x.name)
    if x.k=='Grp' and not x.ci: return N('Cap',x=x.x,name=name)
    return N('Cap',x=x,name=name)
def group(x,ci=False):
    if x.k=='Empty': return x
    if x.k in('Cap','Grp'): return N('Grp',x=x.x,ci=ci)
    return N('Grp',x=x,ci=ci)
def width(x):
    try: t=sp.parse(ref(x),FL); lo,hi=t.getwidth(); return lo,hi
    except Exception: return None
def look(kind,x,a):
    if a.k=='Empty':
        if kind in('fol','pre','enc'): return x
        raise Expect(EX.EmptyNegativeAssertionException)
    if kind in('pre','npre','enc','nenc'):
        w=width(a)
        if w is None: raise Unspec('width-unknown')
        if w[0]!=w[1]: raise Expect(EX.NonFixedWidthPatternException)
    return N('Look',kind=kind,x=x,a=a)
def anchor(kind,x): return N('Anchor',kind=kind,x=x)
# ---- program interpreter: program = (op, args...) ; returns (real_obj, shadow)
CLSREF={'AnyLetter':'[A-Za-z]','AnyDigit':'[0-9]','Any':'.','AnyButDigit':'[^0-9]','AnyWhitespace':'[ \\t\\n\\r\\x0b\\x0c]','AnyWordChar':'[A-Za-z0-9_]'}
def leaf_shadow(t):
    k=t[0]
    if k=='lit': return EMPTY if t[1]=='' else N('Lit',s=t[1])
    if k=='cls': return N('Cls',ref=CLSREF[t[1]])
    if k=='from': return N('Cls',ref='['+''.join(esc(c) for c in t[1])+']')
    if k=='tok': return N('Lit',s=t[2])
    if k=='empty': return EMPTY
    if k=='wb': return N('Bound',t='\\b')
    if k=='raw': return N('Raw',text=t[1])
    if k=='bref': return N('Backref',r=t[1])
def leaf_real(t):
    k=t[0]
    if k=='lit': return t[1]        # str operand (will be wrapped by API); top-level handled by caller
    if k=='cls': return getattr(CL,t[1])()
    if k=='from': return CL.AnyFrom(*t[1])
    if k=='tok': return getattr(TK,t[1])()
    if k=='empty': return Pregex()
    if k=='wb': return AS.WordBoundary()
    if k=='raw': return Pregex(t[1],escape=False)
    if k=='bref': return GR.Backreference(t[1])
LEAF={'lit','cls','from','tok','empty','wb','raw','bref'}
def run(t, form='class'):
    """returns (real, shadow). raises whatever real raises; shadow expectations raise Expect/Unspec."""
    k=t[0]
    if k in LEAF:
        try: return leaf_real(t), leaf_shadow(t)
        except RecursionError: raise Outcome('crash:RecursionError','leaf '+repr(t))
        except LIBEXC as e: raise Outcome('unexpected-exception','leaf '+type(e).__name__)
        except Exception as e: raise Outcome('crash:'+type(e).__name__,'leaf '+repr(t))
    subs=[run(a,form) for a in t[1] ] if k in('cat','alt','enc') else None
    P=lambda r: r if isinstance(r,Pregex) else Pregex(r)
    if k=='cat':
        sh=lambda: cat([s for _,s in subs])
        rl=(lambda: OP.Concat(*[r for r,_ in subs])) if form=='class' else (lambda: _fold([r for r,_ in subs],lambda a,b:P(a).concat(b))) if form=='method' else (lambda: _fold([r for r,_ in subs],lambda a,b: P(a)+b))
        return both(rl,sh)
    if k=='alt':
        sh=lambda: alt([s for _,s in subs])
        rl=(lambda: OP.Either(*[r for r,_ in subs])) if form!='method' else (lambda: _fold([r for r,_ in subs],lambda a,b:P(a).either(b)))
        return both(rl,sh)
    if k=='enc':
        def sh():
            x=subs[0][1]
            for _,e in subs[1:]: x=cat([e,x,e])
            return x
        rl=(lambda: OP.Enclose(*[r for r,_ in subs])) if form!='method' else (lambda: _fold([r for r,_ in subs],lambda a,b:P(a).enclose(b)))
        return both(rl,sh)
    if k=='q':
        (r,s)=run(t[1],form); n,m,gr=t[2],t[3],t[4]
        sh=lambda: quant(s,n,m,gr)
        if form=='class': rl=lambda: QU.AtLeastAtMost(r,n,m,gr)
        elif form=='method': rl=lambda: P(r).at_least_at_most(n,m,gr)
        else:
            if n==m: rl=lambda: P(r)*n
            else: rl=lambda: QU.AtLeastAtMost(r,n,m,gr)
        return both(rl,sh)
    if k in('opt','star','plus'):
        (r,s)=run(t[1],form); gr=t[2]; n,m={'opt':(0,1),'star':(0,None),'plus':(1,None)}[k]
        cls={'opt':QU.Optional,'star':QU.Indefinite,'plus':QU.OneOrMore}[k]; meth={'opt':'optional','star':'indefinite','plus':'one_or_more'}[k]
        rl=(lambda: cls(r,gr)) if form!='method' else (lambda: getattr(P(r),meth)(gr))
        return both(rl,lambda: quant(s,n,m,gr))
    if k=='cap':
        (r,s)=run(t[1],form); nm=t[2]
        rl=(lambda: GR.Capture(r,nm)) if form!='method' else (lambda: P(r).capture(nm))
        return both(rl,lambda: capture(s,nm))
    if k=='grp':
        (r,s)=run(t[1],form); ci=t[2]
        rl=(lambda: GR.Group(r,ci)) if form!='method' else (lambda: P(r).group(ci))
        return both(rl,lambda: group(s,ci))
    if k in('fol','nfol','pre','npre','lenc','nlenc'):
        (r,s)=run(t[1],form); (ra,sa)=run(t[2],form)
        kind={'fol':'fol','nfol':'nfol','pre':'pre','npre':'npre','lenc':'enc','nlenc':'nenc'}[k]
        cls={'fol':AS.FollowedBy,'nfol':AS.NotFollowedBy,'pre':AS.PrecededBy,'npre':AS.NotPrecededBy,'lenc':AS.EnclosedBy,'nlenc':AS.NotEnclosedBy}[k]
        meth={'fol':'followed_by','nfol':'not_followed_by','pre':'preceded_by','npre':'not_preceded_by','lenc':'enclosed_by','nlenc':'not_enclosed_by'}[k]
        rl=(lambda: cls(r,ra)) if form!='method' else (lambda: getattr(P(r),meth)(ra))
        return both(rl,lambda: look(kind,s,sa))
    if k in('mas','mae','mals','male'):
        (r,s)=run(t[1],form)
        cls={'mas':AS.MatchAtStart,'mae':AS.MatchAtEnd,'mals':AS.MatchAtLineStart,'male':AS.MatchAtLineEnd}[k]
        meth={'mas':'match_at_start','mae':'match_at_end','mals':'match_at_line_start','male':'match_at_line_end'}[k]
        rl=(lambda: cls(r)) if form!='method' else (lambda: getattr(P(r),meth)())
        return both(rl,lambda: anchor(k,s))
    if k=='cond':
        (r,s)=run(t[2],form); (r2,s2)=run(t[3],form) if t[3] is not None else (None,None)
        return both(lambda: GR.Conditional(t[1],r,r2), lambda: N('Cond',name=t[1],a=s,b=s2))
    raise KeyError(k)
def _fold(xs,f):
    acc=xs[0]
    for x in xs[1:]: acc=f(acc,x)
    return acc if isinstance(acc,Pregex) else Pregex(acc)
class Outcome(Exception):
    def __init__(s,kind,detail): s.kind=kind; s.detail=detail
def both(rl,sh):
    # evaluate expectation
    try: exp=sh(); expk='shadow'
    except Expect as e: exp=e.types; expk='exc'
    except Unspec as e: exp=str(e); expk='unspec'
    try: real=rl(); rk='ok'
    except LIBEXC as e: real=e; rk='libexc'
    except RecursionError as e: raise Outcome('crash:RecursionError','')
    except Exception as e: raise Outcome('crash:'+type(e).__name__,str(e)[:80])
    if expk=='unspec':
        if rk=='ok': return real, N('Raw',text=str(real)) if str(real)!='' else EMPTY
        raise Outcome('unspec-exc', exp)
    if expk=='exc':
        if rk=='libexc' and isinstance(real,exp): raise Outcome('expected-exc',type(real).__name__)
        if rk=='libexc': raise Outcome('wrong-exception','%s expected %s'%(type(real).__name__,[t.__name__ for t in exp]))
        raise Outcome('missing-exception','%s ; got %r'%([t.__name__ for t in exp],str(real)))
    if rk=='libexc': raise Outcome('unexpected-exception',type(real).__name__)
    return real,exp
PROBES=['','a','b','ab','ba','aa','abc','a\nb','\n','A','aB','a$','$','^a','a.b','axb','[a]','(a)','a|b','aab','bab','  a  ','0','a0','x','xx']
def judge(real,sh):
    rt=str(real); rf=ref(sh)
    try: cr=re.compile(rt,FL)
    except re.error as e: return 'uncompilable:'+re.sub(r' at position \d+','',str(e)).split(' (')[0]
    try: cf=re.compile(rf,FL)
    except re.error as e: return 'REF-uncompilable:'+str(e)
    try:
        if canon_of(rt)==canon_of(rf): 
            if cr.groups!=cf.groups or cr.groupindex!=cf.groupindex: return 'groups-diff-but-tree-equal?'
            return 'ok-struct'
    except Exception as e: return 'canon-error:'+repr(e)[:60]
    if cr.groups!=cf.groups or dict(cr.groupindex)!=dict(cf.groupindex): return 'group-structure'
    for s in PROBES+[s.upper() for s in PROBES]:
        a=[(m.span(),m.groups()) for m in cr.finditer(s)]; b=[(m.span(),m.groups()) for m in cf.finditer(s)]
        if a!=b: return 'semantic-diff'
    return 'ok-probes'
def evaluate(t,form='class'):
    try: real,sh=run(t,form)
    except Outcome as o: return o.kind,o.detail,None,None
    if not isinstance(real,Pregex): real=Pregex(real)
    v=judge(real,sh)
    return v,'',str(real),ref(sh)
