import re, sys, warnings, collections, itertools, random
warnings.simplefilter("ignore")
from pregex.core import classes as C, tokens as T, exceptions as E
from clslib import runs, norm, compl, sub, MASK
CH=list("$-/[\\]^") + list("abcdxyz09AZ_ !~.{`@") + ['\n','\t','é']
def model_from(cs): return norm([(ord(c),ord(c)) for c in cs])
leaves=[]
for c in CH: leaves.append((('from',c), lambda c=c: C.AnyFrom(c), model_from([c])))
for a,b in itertools.combinations(CH,2):
    if ord(a)>ord(b): a,b=b,a
    if random.Random(hash((a,b))%1000).random()<0.35:
        leaves.append((('btw',a,b), lambda a=a,b=b: C.AnyBetween(a,b), [(ord(a),ord(b))]))
for cs in [('a','c'),('a','b'),('x','z','y'),('[',']'),('\\','-'),('^','$'),('0','9','_'),('-','a'),('\\','a'),('[','a')]:
    leaves.append((('from',)+cs, lambda cs=cs: C.AnyFrom(*cs), model_from(cs)))
for n,m in [('AnyLetter',[(65,90),(97,122)]),('AnyDigit',[(48,57)]),('AnyPunctuation',[(33,47),(58,64),(91,96),(123,126)]),('AnyWordChar',[(48,57),(65,90),(95,95),(97,122)]),('AnyLowercaseLetter',[(97,122)])]:
    leaves.append(((n,), lambda n=n: getattr(C,n)(), m))
print('leaves',len(leaves))
stats=collections.Counter(); ex=collections.defaultdict(list)
def observe(obj):
    return norm(runs(str(obj)))
def check(desc, build, exp):
    try: r=build()
    except E.EmptyClassException:
        if exp: stats['SPURIOUS-empty']+=1; ex['spurious'].append(desc)
        else: stats['ok-empty']+=1
        return None
    except Exception as e:
        stats['exc:'+type(e).__name__]+=1; ex['exc:'+type(e).__name__].append(desc); return None
    if not exp: stats['MISSING-empty']+=1; ex['missing-empty'].append((desc,str(r))); return None
    try: got=observe(r)
    except re.error as e: stats['invalid-class']+=1; ex['invalid'].append((desc,str(r))); return None
    if sub(got,MASK)==sub(norm(exp),MASK): stats['ok']+=1
    else: stats['WRONG-set']+=1; ex['wrong'].append((desc,str(r),sub(got,norm(exp))[:2],sub(norm(exp),got)[:2]))
    return r
# leaves themselves
for d,b,m in leaves: check(d,b,m)
print('leaves:',dict(stats)); 
for k,v in ex.items(): print(' ',k,v[:8])
stats.clear(); ex.clear()
for (d1,b1,m1),(d2,b2,m2) in itertools.product(leaves,leaves):
    check((d1,'|',d2), lambda: b1()|b2(), norm(m1+m2))
    check((d1,'-',d2), lambda: b1()-b2(), sub(m1,m2))
print('depth1 algebra:',dict(stats))
for k,v in ex.items():
    print('==',k,len(v))
    for x in v[:14]: print('    ',x)
