import re, random, sys, warnings, collections; warnings.simplefilter("ignore")
from pregex.meta.essentials import *
rnd=random.Random(int(sys.argv[1]) if len(sys.argv)>1 else 0)
stats=collections.Counter(); ex=collections.defaultdict(list)
def int_ok(s,a,b): return s.isdigit() and (s=='0' or s[0]!='0') and a<=int(s)<=b
VAR={'Dec':(Decimal,''),'Dec+s':(lambda *a,**k:Decimal(*a,include_sign=True,**k),'opt'),'Pos':(PositiveDecimal,'pos'),'Neg':(NegativeDecimal,'neg'),'Uns':(UnsignedDecimal,'uns')}
for it in range(int(sys.argv[2]) if len(sys.argv)>2 else 150):
    a=rnd.choice([0,0,1,5,10,99]); b=a+rnd.choice([0,1,9,90,1000]); mn=rnd.choice([1,1,2,3]); mx=rnd.choice([None,mn,mn+1,mn+3])
    for name,(cls,sg) in VAR.items():
        p=cls(a,b,mn,mx)
        ints=[str(v) for v in {a,b,a-1,b+1,0,5,10,(a+b)//2} if v>=0]+['','0'+str(a),'00']
        for I in ints:
            for fl in {mn-1,mn,mn+1,(mx or mn+2),(mx or mn+2)+1,0}:
                if fl<0: continue
                F='7'*fl
                for sign in ['','+','-']:
                    tok=sign+I+'.'+F
                    iv = int_ok(I,a,b) or (I=='' and a==0)
                    fv = fl>=mn and (mx is None or fl<=mx)
                    if sg=='': sv = (sign=='')
                    elif sg=='opt': sv=True
                    elif sg=='pos': sv = sign in ('','+')
                    elif sg=='neg': sv = sign=='-'
                    elif sg=='uns': sv = sign==''
                    exp = iv and fv and sv
                    got=p.is_exact_match(tok)
                    stats['ok' if got==exp else 'BAD:'+name+(':accepts' if got else ':rejects')]+=1
                    if got!=exp and len(ex[name])<6: ex[name].append((a,b,mn,mx,tok,got))
                    # embedded, space delimited
                    if exp:
                        g2=p.get_matches(' '+tok+' ')
                        stats['emb-ok' if g2==[tok] else 'emb-BAD:'+name]+=1
                        if g2!=[tok] and len(ex['emb'+name])<6: ex['emb'+name].append((a,b,mn,mx,tok,g2))
print(stats)
for k,v in ex.items(): print(k,v)
