import re, random, sys, warnings, collections; warnings.simplefilter("ignore")
from pregex.meta.essentials import *
rnd=random.Random(1)
stats=collections.Counter(); ex=collections.defaultdict(list)
WORDCH='abcXYZ019_'
def words(text):  # maximal runs of ASCII word chars (texts use ASCII only + é sometimes)
    return [m.group(0) for m in re.finditer(r'[A-Za-z0-9_]+',text)]
def mk_text():
    toks=[]
    for _ in range(rnd.choice([1,3,6])):
        toks.append(''.join(rnd.choice(WORDCH) for _ in range(rnd.choice([1,2,3,4,5,7]))))
    seps=[' ',', ','\n','-','. ','(',')']
    return rnd.choice(['',' '])+''.join(t+rnd.choice(seps) for t in toks)
for it in range(3000):
    mn=rnd.choice([1,1,2,3]); mx=rnd.choice([None,mn,mn+1,mn+3]); g=rnd.random()<0.5
    p=Word(mn,mx,is_global=g); t=mk_text()
    exp=[w for w in words(t) if len(w)>=mn and (mx is None or len(w)<=mx)]
    got=p.get_matches(t)
    stats['word-ok' if got==exp else 'word-BAD']+=1
    if got!=exp and len(ex['word'])<5: ex['word'].append((mn,mx,g,t,got,exp))
    aff=[''.join(rnd.choice('abcXY01') for _ in range(rnd.choice([1,2]))) for _ in range(rnd.choice([1,2,3]))]
    arg=aff if rnd.random()<0.7 else aff[0]
    al=arg if isinstance(arg,list) else [arg]
    for cls,pred,nm in [(WordContains,lambda w:any(a in w for a in al),'contains'),(WordStartsWith,lambda w:any(w.startswith(a) for a in al),'starts'),(WordEndsWith,lambda w:any(w.endswith(a) for a in al),'ends')]:
        q=cls(arg,is_global=g); exp=[w for w in words(t) if pred(w)]; got=q.get_matches(t)
        stats[nm+'-ok' if got==exp else nm+'-BAD']+=1
        if got!=exp and len(ex[nm])<5: ex[nm].append((arg,t,got,exp,str(q)))
print(stats)
for k,v in ex.items(): print(k,v)
