import wrapproto, collections, functools
from wrapproto import Pregex
mut=collections.Counter(); checked=[0]; alias=collections.Counter()
def snap(x):
    if not isinstance(x,Pregex): return None
    d=(str(x), x.get_pattern(), x._get_type(), x._is_repeatable())
    v=getattr(x,'_get_verbose_pattern',None)
    if v: d+= (v(),)
    return d
def rewrap(cls,name):
    cur=cls.__dict__[name]
    @functools.wraps(cur)
    def w(self,*a,**k):
        objs=[self]+[x for x in a if isinstance(x,Pregex)]+[x for x in k.values() if isinstance(x,Pregex)]
        before=[snap(o) for o in objs]
        try: r=cur(self,*a,**k)
        finally:
            after=[snap(o) for o in objs]; checked[0]+=len(objs)
            for b,a_ in zip(before,after):
                if b!=a_: mut[(name,b,a_)]+=1
        if any(r is o for o in objs): alias[name]+=1
        return r
    setattr(cls,name,w)
for name in ['concat','either','enclose','optional','indefinite','one_or_more','exactly','at_least','at_most','at_least_at_most','capture','group',
             'match_at_start','match_at_end','match_at_line_start','match_at_line_end','followed_by','preceded_by','enclosed_by','not_followed_by','not_preceded_by','not_enclosed_by',
             '__add__','__radd__','__mul__','__rmul__','compile','get_compiled_pattern','has_match','is_exact_match','get_matches','get_captures','replace','split_by_match']:
    rewrap(Pregex,name)
base=wrapproto.CL.Any.__mro__[1]
for name in ['__or__','__ror__','__sub__','__rsub__','__invert__']: rewrap(base,name)
def pytest_sessionfinish(session, exitstatus):
    print("\n[c20] operand snapshots compared:",checked[0]," mutations:",sum(mut.values())," alias-returns:",dict(alias))
    for k,v in list(mut.items())[:5]: print("[c20] MUT",k,v)
