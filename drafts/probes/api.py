import re, random, warnings, collections, sys; warnings.simplefilter("ignore")
from pregex.core.pre import Pregex
FL=re.M|re.S
rnd=random.Random(int(sys.argv[1]) if len(sys.argv)>1 else 0)
atoms=['a','b','ab','[ab]','.','\\d','x?','a*','(?:ab)+','','\\b','^','$','\\n']
def gen_pat():
    parts=[]; names=iter(['n1','n2','n3','n4'])
    for _ in range(rnd.choice([1,2,3,4])):
        a=rnd.choice(atoms); k=rnd.random()
        if k<0.25: a='(%s)'%a
        elif k<0.45: a='(?P<%s>%s)'%(next(names),a)
        elif k<0.55: a='(%s)?'%a
        elif k<0.62: a='(?P<%s>%s)?'%(next(names),a)
        elif k<0.7: a='((?P<%s>%s)b?)'%(next(names),a)
        parts.append(a)
    p=''.join(parts)
    if rnd.random()<0.2: p=p+'|'+rnd.choice(['(c)','c','(?P<z>c)?'])
    return p
def gen_text(): return ''.join(rnd.choice(['a','b','ab','x',' ','\n','1','c','']) for _ in range(rnd.choice([0,1,3,6,10])))
bad=collections.Counter(); ex={}; tot=0
def chk(name,got,exp,ctx):
    global tot; tot+=1
    if got!=exp:
        bad[name]+=1; ex.setdefault(name,(ctx,got,exp))
for it in range(int(sys.argv[2]) if len(sys.argv)>2 else 3000):
    pat=gen_pat()
    try: c=re.compile(pat,FL)
    except re.error: continue
    try: p=Pregex(pat,escape=False)
    except RecursionError: bad['ctor-RecursionError']+=1; ex.setdefault('ctor-RecursionError',pat); continue
    hist=[rnd.choice(['none','compile','gcp_true','gcp_false','purge']) for _ in range(rnd.choice([0,1,2,3]))]
    for h in hist:
        if h=='compile': p.compile()
        elif h=='gcp_true': p.get_compiled_pattern(True)
        elif h=='gcp_false': p.get_compiled_pattern(False)
        elif h=='purge': Pregex.purge()
    t=gen_text(); ms=list(c.finditer(t)); ctx=(pat,t,tuple(hist))
    chk('has_match',p.has_match(t),bool(ms),ctx)
    chk('is_exact',p.is_exact_match(t),bool(c.fullmatch(t)),ctx)
    chk('get_matches',p.get_matches(t),[m.group(0) for m in ms],ctx)
    chk('matches_pos',p.get_matches_and_pos(t),[(m.group(0),*m.span()) for m in ms],ctx)
    chk('iter==get',list(p.iterate_matches(t)),p.get_matches(t),ctx)
    for ie in (True,False):
        chk('captures',p.get_captures(t,ie),[tuple(g for g in m.groups() if ie or g!='') for m in ms],ctx)
        chk('named',p.get_named_captures(t,ie),[{k:v for k,v in m.groupdict().items() if ie or v!=''} for m in ms],ctx)
        for rel in (True,False):
            exp=[]
            for m in ms:
                row=[]
                for gi,g in enumerate(m.groups(),1):
                    if ie or g!='':
                        s,e=m.span(gi)
                        if rel and s>-1: s,e=s-m.start(),e-m.start()
                        row.append((g,s,e))
                exp.append(row)
            chk('captures_pos',p.get_captures_and_pos(t,ie,rel),exp,ctx)
            exp=[]
            for m in ms:
                d={}
                for k,v in m.groupdict().items():
                    if ie or v!='':
                        s,e=m.span(k)
                        if rel and s>-1: s,e=s-m.start(),e-m.start()
                        d[k]=(v,s,e)
                exp.append(d)
            chk('named_pos',p.get_named_captures_and_pos(t,ie,rel),exp,ctx)
    pieces=p.split_by_match(t)
    chk('split_count',len(pieces),len(ms)+1,ctx)
    rec=''.join(a+b for a,b in zip(pieces,[m.group(0) for m in ms]+['']))
    chk('split_rebuild',rec,t,ctx)
    for cnt in (0,1,2):
        exp=[];idx=0
        for i,m in enumerate(ms):
            if cnt and i>=cnt: break
            exp.append(t[idx:m.start()]); exp.append('<R>'); idx=m.end()
        exp.append(t[idx:])
        chk('replace',p.replace(t,'<R>',cnt),''.join(exp),ctx)
    chk('replace==join',p.replace(t,'<R>'),'<R>'.join(pieces),ctx)
    for l,r_ in ((0,0),(1,2),(50,50)):
        chk('context',p.get_matches_with_context(t,l,r_),[t[max(m.start()-l,0):min(m.end()+r_,len(t))] for m in ms],ctx)
print('checks',tot,'bad',dict(bad))
for k,v in ex.items(): print(k,v)
