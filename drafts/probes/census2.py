import sys; sys.path.insert(0,'/tmp/probe')
from proto import *
import census_sum
sys.setrecursionlimit(600)
LEAVES=[('lit','a'),('lit','ab'),('lit','a$'),('lit','^a'),('lit','a|b'),('lit','[x'),('lit','('),('lit','a)'),('lit','a?'),('lit','\\'),('lit','\n'),
        ('cls','AnyLetter'),('cls','Any'),('from',('[',)),('from',('(','x')),('from',('+','-')),('tok','Dollar','$'),('tok','Backslash','\\'),('empty',),('wb',),('raw','x|y')]
def unary(x):
    yield ('opt',x,True); yield ('star',x,False); yield ('plus',x,True)
    for n,m in [(0,0),(1,1),(2,2),(0,2),(2,None),(1,3)]: yield ('q',x,n,m,True)
    yield ('cap',x,None); yield ('cap',x,'n1'); yield ('cap',x,'n2'); yield ('grp',x,False); yield ('grp',x,True)
    yield ('mas',x); yield ('mae',x); yield ('mals',x); yield ('male',x)
def binary(x,y):
    yield ('cat',[x,y]); yield ('alt',[x,y]); yield ('enc',[x,y])
    for k in ('fol','nfol','pre','npre','lenc','nlenc'): yield (k,x,y)
def feat(t): return census_sum.feat(t)
d1=[]
for x in LEAVES:
    d1+=list(unary(x))
for x in LEAVES:
    for y in LEAVES[:12]: d1+=list(binary(x,y))
print('d1',len(d1))
rnd=random.Random(1)
progs=[]
for x in d1:
    for u in unary(x): progs.append(u)
S=rnd.sample(d1,400)
for x in S:
    for y in rnd.sample(LEAVES,6):
        progs+=list(binary(x,y)); progs+=list(binary(y,x))
print('depth2 programs',len(progs))
def names_dup(t):
    # skip programs where enclose/lenc duplicate a named capture (user error)
    return False
stats=collections.Counter(); ex=collections.defaultdict(list)
for t in progs:
    v,d,rt,rf=evaluate(t,'class')
    if v.startswith('uncompilable:redefinition'): stats['skip-dupname']+=1; continue
    stats[v]+=1
    if not v.startswith('ok-struct') and v not in('expected-exc','unspec-exc'):
        ex[v].append((t,d,rt,rf))
print(stats)
def shape(t):
    if t[0] in LEAF: return t[0] if t[0]!='lit' else 'lit:'+repr(t[1])
    if t[0] in('cat','alt','enc'): return t[0]+'('+','.join(shape(a) for a in t[1])+')'
    if t[0]=='q': return 'q[%s,%s]('%(t[2],t[3])+shape(t[1])+')'
    if t[0] in('fol','nfol','pre','npre','lenc','nlenc'): return t[0]+'('+shape(t[1])+','+shape(t[2])+')'
    if t[0]=='cap': return 'cap%s('%('N' if t[2] else '')+shape(t[1])+')'
    if t[0]=='grp': return 'grp%s('%('I' if t[2] else '')+shape(t[1])+')'
    return t[0]+'('+shape(t[1])+')'
for k,v in ex.items():
    print('=====',k,len(v))
    sh=collections.OrderedDict()
    for t,d,rt,rf in v:
        sh.setdefault((shape(t)),(d,rt,rf))
    print('   distinct shapes',len(sh))
    for s,(d,rt,rf) in list(sh.items())[:int(sys.argv[1]) if len(sys.argv)>1 else 40]:
        print('     ',s,'|',d,'|',repr(rt),'|',repr(rf) if k.startswith('ok-probes') or k.startswith('sem') or k.startswith('group') else '')

print("\n\n######## residual after removing known mechanisms")
def mentions(t,pred):
    if isinstance(t,tuple):
        if pred(t): return True
        return any(mentions(a,pred) for a in t[1:])
    if isinstance(t,list): return any(mentions(a,pred) for a in t)
    return False
known=[
 ('dollar-end', lambda t: t[0]=='lit' and t[1].endswith('$') and len(t[1])>1 or t[0]=='tok' and t[1]=='Dollar' or (t[0]=='from' and '$' in t[1])),
 ('class-plus-width', lambda t: t[0]=='from' and ('+' in t[1] or '?' in t[1] or '*' in t[1])),
 ('lit-? width', lambda t: False),
 ('escaped-[', lambda t: (t[0]=='lit' and '[' in t[1]) or (t[0]=='from' and '[' in t[1])),
 ('bare-anchor', lambda t: t[0] in('mas','mae','mals','male') and t[1]==('empty',)),
 ('bare-look', lambda t: t[0] in('fol','nfol','pre','npre','lenc','nlenc') and t[1]==('empty',)),
 ('grpI-of-cap', lambda t: t[0]=='grp' and t[2] and t[1][0]=='cap'),
]
for k,v in ex.items():
    res=[]
    for t,d,rt,rf in v:
        if any(mentions(t,p) for _,p in known): continue
        res.append((t,d,rt,rf))
    print('=====',k,'residual',len(res),'of',len(v))
    sh=collections.OrderedDict()
    for t,d,rt,rf in res: sh.setdefault(shape(t),(d,rt,rf))
    for s,(d,rt,rf) in list(sh.items())[:40]: print('     ',s,'|',d,'|',repr(rt),'|',repr(rf))
