import wrapproto, collections
def pytest_sessionfinish(session, exitstatus):
    s=wrapproto.stats; ev=wrapproto.events
    print("\n[rv] stats", dict(s))
    print("[rv] boundary", sum(v for (l,k),v in ev.items() if k=='boundary'), "nested", sum(v for (l,k),v in ev.items() if k=='nested'))
    seen=collections.Counter()
    for v in wrapproto.viol: seen[(v[0],v[1])]+=1
    print("[rv] violation kinds", dict(seen))
    shown=set()
    for v in wrapproto.viol:
        k=(v[0],v[1])
        if k in shown: continue
        shown.add(k); print("[rv] e.g.", [str(x)[:100] for x in v])
