import sys; sys.path.insert(0,'/tmp/probe')
from proto import *
sys.setrecursionlimit(600)
META=list('^$()[]{}?+*.|/')+['\\','a','-','\n']
LITS=[a for a in META]+[a+b for a in META for b in META]+['a$b','US$','^a$','(?:a)','(?=a)','(?<!a)','(?P<n>a)','[a-z]','[^a]','a{2,3}','a{2}','\\A','\\Z','\\b','\\1','(?i)a','a\\\\','\\\\\\','a|b|c','((','))','(()','x)(','[[','[]]','{,}','{1,','?:','??','*?','+?','a-z','--','\n\n','a\nb','é$','$é']
print('literals',len(LITS))
def unary(x):
    yield ('opt',x,True); yield ('star',x,False); yield ('plus',x,True)
    for n,m in [(0,0),(1,1),(2,2),(0,2),(2,None)]: yield ('q',x,n,m,True)
    yield ('cap',x,None); yield ('cap',x,'n1'); yield ('grp',x,False); yield ('grp',x,True)
    yield ('mas',x); yield ('mae',x); yield ('mals',x); yield ('male',x)
N1=('lit','x'); N2=('cls','AnyLetter')
def binary(x):
    for y in (N1,N2):
        yield ('cat',[x,y]); yield ('cat',[y,x]); yield ('alt',[x,y]); yield ('alt',[y,x]); yield ('enc',[x,y]); yield ('enc',[y,x])
        for k in ('fol','nfol','pre','npre','lenc','nlenc'): yield (k,x,y); yield (k,y,x)
    yield ('cat',[('opt',('cap',('lit','z'),'n1'),True),('cond','n1',x,N1)]); yield ('cat',[('opt',('cap',('lit','z'),'n1'),True),('cond','n1',N1,x)])
stats=collections.Counter(); ex=collections.defaultdict(list); n=0
for s in LITS:
    x=('lit',s)
    progs=[('cat',[x,('empty',)])]+list(unary(x))+list(binary(x))
    for t in progs:
        for form in ('class','method','op'):
            n+=1
            v,d,rt,rf=evaluate(t,form); stats[v]+=1
            if not v.startswith('ok') and v not in('expected-exc','unspec-exc') and len(ex[v])<12: ex[v].append((form,t,d,rt))
print('programs',n); print(stats)
for k,v in ex.items():
    print('==',k); [print('    ',x) for x in v[:12]]
