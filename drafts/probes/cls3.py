import re, sys, warnings, collections, itertools, random
warnings.simplefilter("ignore")
from pregex.core import classes as C, tokens as T, exceptions as E
from pregex.core.pre import Pregex
from clslib import runs, norm, compl, sub, MASK
import string
# order injection
class SSet(set):
    rng=random.Random(5)
    def __iter__(self):
        l=list(set.__iter__(self)); self.rng.shuffle(l); return iter(l)
    def union(self,*o): return SSet(set.union(self,*o))
    def difference(self,*o): return SSet(set.difference(self,*o))
if len(sys.argv)>1 and sys.argv[1]=='inject': C.set=SSet
CH=list(string.punctuation)+list("aAzZ09_ \n\t\r\x0b\x0c")+['é','€',' ','\U0001F600','b','y','1','8']
TOK=[getattr(T,n)() for n in ['Backslash','Dollar','Newline','Space','Tab','Euro','Copyright','CarriageReturn']]+[Pregex('.'),Pregex('['),Pregex('-'),Pregex('^')]
def ch(x): 
    if isinstance(x,str): return x
    s=str(x); return s[1:] if len(s)==2 and s[0]=='\\' else s
stats=collections.Counter(); ex=collections.defaultdict(list)
def check(desc,build,exp,neg=False):
    try: r=build()
    except Exception as e:
        stats['exc:'+type(e).__name__]+=1; ex['exc:'+type(e).__name__].append(desc); return
    try: got=norm(runs(str(r)))
    except re.error as e: stats['invalid-class']+=1; ex['invalid'].append((desc,str(r))); return
    e2=compl(exp) if neg else norm(exp)
    if sub(got,MASK)==sub(list(e2),MASK): stats['ok']+=1
    else: stats['WRONG']+=1; ex['wrong'].append((desc,str(r)))
ALL=CH+TOK
for a,b in itertools.product(ALL,ALL):
    ca,cb=ch(a),ch(b)
    if ord(ca)>=ord(cb):
        try: C.AnyBetween(a,b); stats['MISSING InvalidRange']+=1; ex['missing-invalid'].append((ca,cb))
        except E.InvalidRangeException: stats['ok-invalid']+=1
        except Exception as e: stats['exc2:'+type(e).__name__]+=1; ex['exc2'].append((ca,cb))
        continue
    check(('btw',ca,cb),lambda: C.AnyBetween(a,b),[(ord(ca),ord(cb))])
    if (ord(ca)+ord(cb))%7==0: check(('nbtw',ca,cb),lambda: C.AnyButBetween(a,b),[(ord(ca),ord(cb))],neg=True)
rnd=random.Random(3)
for k in (1,2,3,4,6):
    for _ in range(1500):
        xs=rnd.sample(ALL,k)
        m=[(ord(ch(x)),ord(ch(x))) for x in xs]
        check(('from',tuple(ch(x) for x in xs)),lambda: C.AnyFrom(*xs),m)
        if _%5==0: check(('nfrom',tuple(ch(x) for x in xs)),lambda: C.AnyButFrom(*xs),m,neg=True)
for n in dir(T):
    c=getattr(T,n)
    if isinstance(c,type) and issubclass(c,Pregex) and not n.startswith('_') and c.__module__==T.__name__:
        t=c(); got=norm(runs(str(t)))
        stats['tok-ok' if len(got)==1 and got[0][0]==got[0][1] else 'tok-BAD']+=1
print(dict(stats))
for k,v in ex.items():
    print('==',k,len(v)); 
    for x in v[:10]: print('    ',x)
