import sys; sys.path.insert(0,'/tmp/probe')
from proto import *
sys.setrecursionlimit(800)
rnd=random.Random(int(sys.argv[1]) if len(sys.argv)>1 else 0); N_=int(sys.argv[2]) if len(sys.argv)>2 else 3000
HOST=['a','ab','a$','^a','a|b','[x','x]','(',')','a)','(?:','a?','a+','{2}','\\','a\\','\n','a.b','é','$','US$ 5','?:x','a*b']
BEN=['a','b','ab','abc','x']
class Ctx: pass
def leaf(c):
    k=rnd.random()
    if k<0.5: return ('lit',rnd.choice(HOST if rnd.random()<0.5 else BEN))
    if k<0.65: return ('cls',rnd.choice(['AnyLetter','Any','AnyButDigit','AnyWhitespace','AnyDigit']))
    if k<0.78: return ('from',tuple(rnd.sample(['a','[','(','x','+','-','$',']','^','\\','\n','.'],rnd.choice([1,2,3]))))
    if k<0.85: return ('tok',*rnd.choice([('Dollar','$'),('Backslash','\\'),('Newline','\n')]))
    if k<0.93: return ('empty',)
    return ('wb',)
def gen(c,d,dup=False):
    if d==0 or rnd.random()<0.2: return leaf(c)
    op=rnd.choice(['cat','cat','alt','alt','enc','opt','star','plus','q','q','cap','cap','grp','grp','fol','nfol','pre','npre','lenc','nlenc','mas','mae','mals','male'])
    if op in('cat','alt'): return (op,[gen(c,d-1,dup) for _ in range(rnd.choice([2,2,3]))])
    if op=='enc': return (op,[gen(c,d-1,dup),gen(c,d-1,True)])
    if op in('opt','star','plus'): return (op,gen(c,d-1,dup),rnd.random()<0.7)
    if op=='q':
        n=rnd.choice([0,1,2,3]); m=rnd.choice([None,n,n+1,n+2]); return (op,gen(c,d-1,dup),n,m,rnd.random()<0.7)
    if op=='cap':
        nm=None
        if not dup and rnd.random()<0.5: c.n+=1; nm='g%d'%c.n
        return (op,gen(c,d-1,dup),nm)
    if op=='grp': return (op,gen(c,d-1,dup),rnd.random()<0.3)
    if op in('fol','nfol','pre','npre'): return (op,gen(c,d-1,dup),gen(c,max(d-2,0),dup))
    if op in('lenc','nlenc'): return (op,gen(c,d-1,dup),gen(c,max(d-2,0),True))
    return (op,gen(c,d-1,dup))
stats=collections.Counter(); ex=collections.defaultdict(list)
for i in range(N_):
    c=Ctx(); c.n=0; t=gen(c,rnd.choice([3,4,5]))
    if t[0] in LEAF: t=('cat',[t,('empty',)])
    form=rnd.choice(['class','method','op'])
    v,d,rt,rf=evaluate(t,form); stats[v]+=1
    if not v.startswith('ok') and v not in('expected-exc','unspec-exc') and len(ex[v])<8: ex[v].append((form,t,d,rt,rf))
print(stats)
for k,v in ex.items():
    print('==',k)
    for x in v[:6]: print('    ',[str(y)[:200] for y in x])
