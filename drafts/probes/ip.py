import re, itertools, ipaddress, warnings, collections, time
warnings.simplefilter("ignore")
from pregex.meta.essentials import IPv4, IPv6, Date
p6=IPv6(); p6e=IPv6(is_extensible=True)
stats=collections.Counter(); ex=collections.defaultdict(list)
def valid6(s):
    if not re.fullmatch(r'[0-9A-Fa-f:]*', s): return False
    try: ipaddress.IPv6Address(s); return True
    except Exception: return False
t0=time.time()
glens=['1','ab','0Cd','fFfF','12345','']
n=0
for total in range(0,10):
    for dc in [None]+list(range(0,total+1)):
        # dc = position of '::' (between groups dc-1 and dc)
        for lens in itertools.product([0,3,4], repeat=total) if total<=6 else itertools.product([0,3], repeat=total):
            groups=[glens[i] for i in lens]
            if dc is None: s=':'.join(groups)
            else: s=':'.join(groups[:dc])+'::'+':'.join(groups[dc:])
            n+=1
            for pat,name in ((p6,'std'),(p6e,'ext')):
                got=pat.is_exact_match(s); exp=valid6(s)
                if got!=exp:
                    stats[name+(':accepts-invalid' if got else ':rejects-valid')]+=1
                    if len(ex[name])<10: ex[name].append((s,got,exp))
                else: stats[name+':ok']+=1
print(n, stats, time.time()-t0)
for k,v in ex.items(): print(k); [print('  ',x) for x in v]
# IPv4
p4=IPv4(); bad=0
for a in list(range(0,300))+['00','01','001','256','999','1000','']:
    for s in (f'{a}.1.1.1', f'1.{a}.1.1', f'1.1.1.{a}'):
        try: ipaddress.IPv4Address(s); exp=True
        except Exception: exp=False
        if p4.is_exact_match(s)!=exp: bad+=1; print('ipv4',s,exp)
print('ipv4 bad',bad)
