import sys; sys.path.insert(0,'/tmp/probe')
from proto import *
sys.setrecursionlimit(600)
# leaf basis
LEAVES=[('lit','a'),('lit','ab'),('lit','a$'),('lit','$'),('lit','^a'),('lit','a|b'),('lit','[x'),('lit','x]'),('lit','('),('lit',')'),('lit','a)'),('lit','(?:'),('lit','a?'),('lit','a+'),('lit','{2}'),('lit','\\'),('lit','a\\'),('lit','\n'),('lit','a.b'),('lit','é'),
        ('cls','AnyLetter'),('cls','Any'),('cls','AnyButDigit'),('cls','AnyWhitespace'),('from',('a',)),('from',('[',)),('from',('(','x')),('from',('+','-')),('from',('$',)),('from',(']','^')),
        ('tok','Dollar','$'),('tok','Backslash','\\'),('tok','Newline','\n'),('empty',),('wb',),('raw','x|y'),('raw','(p)(q)')]
def unary(x):
    yield ('opt',x,True); yield ('opt',x,False); yield ('star',x,True); yield ('plus',x,False)
    for n,m in [(0,0),(1,1),(2,2),(0,1),(0,2),(1,None),(2,None),(2,3),(0,None)]:
        yield ('q',x,n,m,True)
    yield ('q',x,1,3,False)
    yield ('cap',x,None); yield ('cap',x,'n1'); yield ('grp',x,False); yield ('grp',x,True)
    yield ('mas',x); yield ('mae',x); yield ('mals',x); yield ('male',x)
def binary(x,y):
    yield ('cat',[x,y]); yield ('alt',[x,y]); yield ('enc',[x,y])
    for k in ('fol','nfol','pre','npre','lenc','nlenc'): yield (k,x,y)
    yield ('cat',[('opt',('cap',('lit','z'),'n1'),True),('cond','n1',x,y)])
stats=collections.Counter(); ex=collections.defaultdict(list)
def rec(t,form):
    v,d,rt,rf=evaluate(t,form)
    stats[v]+=1
    if not v.startswith('ok') and v not in('expected-exc','unspec-exc'):
        if len(ex[v])<4000: ex[v].append((form,t,d,rt,rf))
depth1=[]
for x in LEAVES:
    for u in unary(x): depth1.append(u)
for x in LEAVES:
    for y in LEAVES:
        for b in binary(x,y): depth1.append(b)
print('depth1 programs',len(depth1))
for form in ('class','method','op'):
    for t in depth1: rec(t,form)
print(stats)
import pickle; pickle.dump((dict(stats),dict(ex),depth1),open('/tmp/probe/census1.pkl','wb'))
def feat(t):
    # (root op, sub op..., leaves)
    if t[0] in LEAF: return t[0]+':'+repr(t[1] if len(t)>1 else '')
    if t[0] in ('cat','alt','enc'): return t[0]+'('+','.join(feat(a) for a in t[1])+')'
    if t[0]=='cond': return 'cond('+feat(t[2])+','+(feat(t[3]) if t[3] else '-')+')'
    if t[0]=='q': return 'q%s,%s%s('%(t[2],t[3],'' if t[4] else 'L')+feat(t[1])+')'
    if t[0] in('fol','nfol','pre','npre','lenc','nlenc'): return t[0]+'('+feat(t[1])+','+feat(t[2])+')'
    return t[0]+'('+feat(t[1])+')'
from proto import LEAF
for k,v in ex.items():
    print('=====',k,len(v))
    seen=collections.Counter()
    for form,t,d,rt,rf in v:
        if form!='class': continue
        seen[(feat(t),d)]+=1
    for (f,d),c in list(seen.items())[:60]: print('    ',f,'|',d)

