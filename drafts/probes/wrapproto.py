"""Throw-away: wrappers + shadow adoption, to validate DESIGN 3.2/3.3 on meta constructors."""
import sys, functools, collections, warnings, re, inspect
warnings.simplefilter("ignore")
sys.path.insert(0,'/tmp/probe')
import proto
from proto import N, EMPTY, cat, alt, quant, capture, group, look, anchor, Expect, Unspec, ref, judge, LIBEXC
import pregex.core.pre as PRE, pregex.core.classes as CL, pregex.core.tokens as TK, pregex.core.operators as OP
import pregex.core.quantifiers as QU, pregex.core.groups as GR, pregex.core.assertions as AS
import pregex.meta.essentials as ME
Pregex=PRE.Pregex
STORE={}          # id -> (obj, shadow)
BYTEXT={}         # text -> shadow (adoption)
depth=[0]; stats=collections.Counter(); viol=[]; events=collections.Counter()
def sh_of(x):
    if isinstance(x,str): return EMPTY if x=='' else N('Lit',s=x)
    if isinstance(x,Pregex):
        e=STORE.get(id(x))
        if e and e[0] is x: return e[1]
        t=str(x); return EMPTY if t=='' else N('Raw',text=t)
    return None
def set_sh(obj,sh):
    STORE[id(obj)]=(obj,sh); BYTEXT[str(obj)]=sh
def spec(op,self_sh,args,kw):
    """returns expected shadow (may raise Expect/Unspec)"""
    a=[sh_of(x) if isinstance(x,(str,Pregex)) else x for x in args]
    g=lambda name,i,default: kw.get(name, args[i] if len(args)>i else default)
    if op=='concat':
        on_right=g('on_right',1,True); return cat([self_sh,a[0]] if on_right else [a[0],self_sh])
    if op=='__add__': return cat([self_sh,a[0]])
    if op=='__radd__': return cat([a[0],self_sh])
    if op=='either':
        on_right=g('on_right',1,True)
        if self_sh.k=='Empty': raise Unspec('empty receiver')
        return alt([self_sh,a[0]] if on_right else [a[0],self_sh]) if a[0].k!='Empty' else self_sh
    if op=='enclose': return cat([a[0],self_sh,a[0]])
    if op=='optional': return quant(self_sh,0,1,g('is_greedy',0,True))
    if op=='indefinite': return quant(self_sh,0,None,g('is_greedy',0,True))
    if op=='one_or_more': return quant(self_sh,1,None,g('is_greedy',0,True))
    if op=='exactly': n=g('n',0,None); return quant(self_sh,n,n,True)
    if op in('__mul__','__rmul__'): n=args[0]; return quant(self_sh,n,n,True)
    if op=='at_least': return quant(self_sh,g('n',0,None),None,g('is_greedy',1,True))
    if op=='at_most':
        n=g('n',0,None)
        return quant(self_sh,0,n,g('is_greedy',1,True))
    if op=='at_least_at_most': return quant(self_sh,g('n',0,None),g('m',1,None),g('is_greedy',2,True))
    if op=='capture': return capture(self_sh,g('name',0,None))
    if op=='group': return group(self_sh,g('is_case_insensitive',0,False))
    if op in('match_at_start','match_at_end','match_at_line_start','match_at_line_end'):
        return anchor({'match_at_start':'mas','match_at_end':'mae','match_at_line_start':'mals','match_at_line_end':'male'}[op],self_sh)
    LK={'followed_by':'fol','not_followed_by':'nfol','preceded_by':'pre','not_preceded_by':'npre','enclosed_by':'enc','not_enclosed_by':'nenc'}
    if op in LK: return look(LK[op],self_sh,a[0])
    raise KeyError(op)
def ctor_spec(cls,args,kw):
    n=cls.__name__; a=[sh_of(x) if isinstance(x,(str,Pregex)) else x for x in args]
    if n=='Concat': return cat(a)
    if n=='Either':
        return alt(a)
    if n=='Enclose':
        x=a[0]
        for e in a[1:]: x=cat([e,x,e])
        return x
    Q={'Optional':(0,1),'Indefinite':(0,None),'OneOrMore':(1,None)}
    if n in Q: return quant(a[0],*Q[n],kw.get('is_greedy',args[1] if len(args)>1 else True))
    if n=='Exactly': k=kw.get('n',args[1] if len(args)>1 else None); return quant(a[0],k,k,True)
    if n=='AtLeast': return quant(a[0],kw.get('n',args[1] if len(args)>1 else None),None,kw.get('is_greedy',args[2] if len(args)>2 else True))
    if n=='AtMost': return quant(a[0],0,kw.get('n',args[1] if len(args)>1 else None),kw.get('is_greedy',args[2] if len(args)>2 else True))
    if n=='AtLeastAtMost': return quant(a[0],kw.get('n',args[1] if len(args)>1 else None),kw.get('m',args[2] if len(args)>2 else None),kw.get('is_greedy',args[3] if len(args)>3 else True))
    if n=='Capture': return capture(a[0],kw.get('name',args[1] if len(args)>1 else None))
    if n=='Group': return group(a[0],kw.get('is_case_insensitive',args[1] if len(args)>1 else False))
    A={'MatchAtStart':'mas','MatchAtEnd':'mae','MatchAtLineStart':'mals','MatchAtLineEnd':'male'}
    if n in A: return anchor(A[n],a[0])
    if n=='WordBoundary': return N('Bound',t='\\b')
    if n=='NonWordBoundary': return N('Bound',t='\\B')
    L={'FollowedBy':'fol','NotFollowedBy':'nfol','PrecededBy':'pre','NotPrecededBy':'npre','EnclosedBy':'enc','NotEnclosedBy':'nenc'}
    if n in L:
        x=a[0]
        for e in a[1:]: x=look(L[n],x,e)
        return x
    if n=='Backreference': return N('Backref',r=args[0])
    if n=='Conditional': return N('Cond',name=args[0],a=a[1],b=a[2] if len(a)>2 and args[2] is not None else None)
    return None   # classes/tokens/meta: leaf = trusted text
def finish(label,expected_fn,result,exc,boundary):
    events[(label,'boundary' if boundary else 'nested')]+=1
    try: exp=expected_fn(); kind='shadow'
    except Expect as e: exp=e.types; kind='exc'
    except Unspec as e: exp=None; kind='unspec'
    except Exception as e: stats['spec-error:'+type(e).__name__]+=1; exp=None; kind='unspec'
    if exc is not None:
        if kind=='exc' and isinstance(exc,exp): stats['expected-exc']+=1
        elif kind=='unspec': stats['unspec']+=1
        elif isinstance(exc,LIBEXC): stats['unexpected-exception']+=1; viol.append((label,'unexpected-exception',type(exc).__name__))
        else: stats['crash:'+type(exc).__name__]+=1; viol.append((label,'crash',type(exc).__name__))
        return
    if kind=='exc': stats['missing-exception']+=1; viol.append((label,'missing-exception',str(result))); set_sh(result,N('Raw',text=str(result))); return
    if kind=='unspec' or exp is None:
        stats['unspec/leaf']+=1; t=str(result); set_sh(result, EMPTY if t=='' else N('Raw',text=t)); return
    set_sh(result,exp)
    if boundary:
        v=judge(result,exp); stats[v]+=1
        if not v.startswith('ok'): viol.append((label,v,str(result),ref(exp)))
def wrap_method(cls,name):
    orig=cls.__dict__[name]
    @functools.wraps(orig)
    def w(self,*a,**k):
        boundary = depth[0]==0; self_sh=sh_of(self); depth[0]+=1
        try: res=orig(self,*a,**k); exc=None
        except Exception as e: res=None; exc=e
        finally: depth[0]-=1
        finish(name,lambda: spec(name,self_sh,a,k),res,exc,boundary)
        if exc is not None: raise exc
        return res
    setattr(cls,name,w)
def wrap_ctor(cls,layer):
    orig=cls.__dict__.get('__init__')
    if orig is None: return
    @functools.wraps(orig)
    def w(self,*a,**k):
        boundary = depth[0]==0
        if layer=='core': depth[0]+=1
        try: orig(self,*a,**k); exc=None
        except Exception as e: exc=e
        finally:
            if layer=='core': depth[0]-=1
        if layer=='meta':
            events[(cls.__name__,'meta')]+=1
            if exc is None: set_sh(self,N('Raw',text=str(self)))
        else:
            finish(cls.__name__,lambda: ctor_spec(cls,a,k),self if exc is None else None,exc,boundary)
        if exc is not None: raise exc
    cls.__init__=w
# Pregex.__init__: literal / adoption
orig_init=Pregex.__dict__['__init__']
def pinit(self,pattern='',escape=True):
    depth[0]+=1
    try: orig_init(self,pattern,escape)
    finally: depth[0]-=1
    events[('Pregex.__init__','lit' if escape else 'raw')]+=1
    t=str(self)
    if escape: set_sh(self, EMPTY if t=='' else N('Lit',s=pattern))
    else:
        sh=BYTEXT.get(t)
        if sh is not None: stats['adopted']+=1; STORE[id(self)]=(self,sh)
        else: stats['raw-created']+=1; set_sh(self, EMPTY if t=='' else N('Raw',text=t))
Pregex.__init__=pinit
for name in ['concat','either','enclose','optional','indefinite','one_or_more','exactly','at_least','at_most','at_least_at_most','capture','group',
             'match_at_start','match_at_end','match_at_line_start','match_at_line_end','followed_by','preceded_by','enclosed_by','not_followed_by','not_preceded_by','not_enclosed_by',
             '__add__','__radd__','__mul__','__rmul__']:
    wrap_method(Pregex,name)
for mod in (OP,QU,GR,AS):
    for n,c in vars(mod).items():
        if isinstance(c,type) and issubclass(c,Pregex) and c.__module__==mod.__name__ and not n.startswith('_'): wrap_ctor(c,'core')
for n,c in vars(ME).items():
    if isinstance(c,type) and issubclass(c,Pregex) and c.__module__==ME.__name__ and not n.startswith('_'): wrap_ctor(c,'meta')
# class algebra results: trusted leaves (class model not part of this prototype)
base=CL.Any.__mro__[1]
for opn in ['__or__','__ror__','__sub__','__rsub__','__invert__']:
    orig=base.__dict__[opn]
    def mk(orig,opn):
        def w(self,*a):
            depth[0]+=1
            try: r=orig(self,*a)
            finally: depth[0]-=1
            set_sh(r,N('Cls',ref=str(r))); events[(opn,'class-op')]+=1
            return r
        return w
    setattr(base,opn,mk(orig,opn))
oci=base.__dict__['__init__']
def cinit(self,*a,**k):
    depth[0]+=1
    try: oci(self,*a,**k)
    finally: depth[0]-=1
    set_sh(self,N('Cls',ref=str(self)))
base.__init__=cinit
if __name__=='__main__':
    import time; t0=time.time()
    W=[lambda:ME.Integer(),lambda:ME.Integer(3,6070),lambda:ME.Integer(100,99999,include_sign=True),lambda:ME.PositiveInteger(5,50),lambda:ME.NegativeInteger(0,9),lambda:ME.UnsignedInteger(1,1000,is_extensible=True),
       lambda:ME.Decimal(),lambda:ME.Decimal(1,5,1,2,True),lambda:ME.PositiveDecimal(),lambda:ME.NegativeDecimal(0,10,2,None,True),lambda:ME.UnsignedDecimal(),
       lambda:ME.Numeral(),lambda:ME.Numeral(16,1,4),lambda:ME.Numeral(2,0,3,True),lambda:ME.Word(),lambda:ME.Word(2,5,False),lambda:ME.WordContains(['a.b','c']),lambda:ME.WordStartsWith('x$'),lambda:ME.WordEndsWith(['ing','ed']),
       lambda:ME.Date(),lambda:ME.Date('dd/mm/yyyy'),lambda:ME.IPv4(),lambda:ME.IPv6(),lambda:ME.IPv6(True),lambda:ME.Email(True,True),lambda:ME.HttpUrl(True),lambda:ME.Text(),lambda:ME.Whitespace(True)]
    for f in W:
        STORE.clear(); BYTEXT.clear()
        try: f()
        except Exception as e: print('workload exc',type(e).__name__,e)
    print('time %.2fs'%(time.time()-t0))
    print(stats)
    b=sum(v for (l,k),v in events.items() if k=='boundary'); n=sum(v for (l,k),v in events.items() if k=='nested')
    print('boundary events',b,'nested',n,'meta ctor',sum(v for (l,k),v in events.items() if k=='meta'))
    seen=set()
    for v in viol:
        key=(v[0],v[1])
        if key in seen: continue
        seen.add(key); print('VIOL',[str(x)[:110] for x in v])
