import sys; sys.path.insert(0,'/tmp/probe')
import re, re._parser as sp, re._constants as sc
FL=re.M|re.S
ASCII={'CATEGORY_DIGIT':[(48,57)],'CATEGORY_SPACE':[(9,13),(32,32)],'CATEGORY_WORD':[(48,57),(65,90),(95,95),(97,122)]}
def norm(iv):
    iv=sorted(iv); out=[]
    for a,b in iv:
        if out and a<=out[-1][1]+1: out[-1][1]=max(out[-1][1],b)
        else: out.append([a,b])
    return tuple(map(tuple,out))
def compl(iv):
    out=[];p=0
    for a,b in norm(iv):
        if a>p: out.append((p,a-1))
        p=b+1
    if p<=0x10FFFF: out.append((p,0x10FFFF))
    return tuple(out)
def canon_in(items):
    neg=False; iv=[]; negcats=[]
    for op,av in items:
        if op is sc.NEGATE: neg=True
        elif op is sc.LITERAL: iv.append((av,av))
        elif op is sc.RANGE: iv.append(av)
        elif op is sc.CATEGORY:
            n=str(av)
            if n.startswith('CATEGORY_NOT_'): iv+=list(compl(ASCII['CATEGORY_'+n[13:]]))
            else: iv+=ASCII[n]
    s=norm(iv)
    return ('SET', compl(s) if neg else s)
def canon(seq):
    out=[]
    for op,av in seq:
        if op is sc.IN: out.append(canon_in(av))
        elif op is sc.LITERAL: out.append(('SET',((av,av),)))
        elif op is sc.NOT_LITERAL: out.append(('SET',compl([(av,av)])))
        elif op is sc.ANY: out.append(('SET',((0,0x10FFFF),)))
        elif op is sc.BRANCH: out.append(('BRANCH',tuple(canon(x) for x in av[1])))
        elif op in (sc.MAX_REPEAT,sc.MIN_REPEAT,sc.POSSESSIVE_REPEAT): out.append((str(op),av[0],int(av[1]),canon(av[2])))
        elif op is sc.SUBPATTERN: out.append(('SUB',av[0],av[1],av[2],canon(av[3])))
        elif op in (sc.ASSERT,sc.ASSERT_NOT): out.append((str(op),av[0],canon(av[1])))
        elif op is sc.AT: out.append(('AT',str(av)))
        elif op is sc.GROUPREF: out.append(('REF',av))
        elif op is sc.GROUPREF_EXISTS: out.append(('COND',av[0],canon(av[1]),canon(av[2]) if av[2] else None))
        elif op is sc.ATOMIC_GROUP: out.append(('ATOMIC',canon(av)))
        else: out.append((str(op),repr(av)))
    return tuple(out)
def C(pat): return canon(sp.parse(pat,FL))
if __name__=='__main__':
    print(C('[A-Za-z]')==C('[\\u0041-\\u005a\\u0061-\\u007a]'), C(r'\d')==C('[0-9]'), C(r'\D')==C('[^0-9]'), C('(?:a|b)c')==C('(?:(?:a)|(?:b))(?:c)'), C('a')==C('[a]'), C('.')==C('[\\x00-\\U0010ffff]'))
