import re, random, sys, time, warnings, collections
warnings.simplefilter("ignore")
from pregex.core import classes as C, tokens as T, exceptions as E
ALL = ''.join(map(chr, range(0x110000)))
def runs(pat):
    c = re.compile('(?:%s)+' % pat, re.S)
    return [(m.start(), m.end()-1) for m in c.finditer(ALL)]





def norm(ivs):
    ivs = sorted(ivs); out=[]
    for a,b in ivs:
        if out and a <= out[-1][1]+1: out[-1][1] = max(out[-1][1], b)
        else: out.append([a,b])
    return [tuple(x) for x in out]
def compl(ivs):
    out=[]; prev=0
    for a,b in norm(ivs):
        if a>prev: out.append((prev,a-1))
        prev=b+1
    if prev<=0x10FFFF: out.append((prev,0x10FFFF))
    return out
def sub(a,b):
    # a - b
    cb = compl(b); out=[]
    for x,y in norm(a):
        for p,q in cb:
            lo,hi=max(x,p),min(y,q)
            if lo<=hi: out.append((lo,hi))
    return norm(out)
CH = list('az09AZ_-^]\\[/$.!~ \n\t') + ['b','y','1','8','{','`','@','é']
DIG = norm(runs(r'\d')); WS = norm(runs(r'\s')); W = norm(runs(r'\w'))
MASK = norm(sub(DIG,[(48,57)]) + sub(WS,[(9,13),(32,32)]) + sub(W,[(48,57),(65,90),(95,95),(97,122)]))
if __name__=='__main__':
    rnd = random.Random(int(sys.argv[1]) if len(sys.argv)>1 else 0)
    def leaf():
        k = rnd.random()
        if k<0.45:
            cs = rnd.sample(CH, rnd.choice([1,2,3,4]))
            return C.AnyFrom(*cs), norm([(ord(c),ord(c)) for c in cs]), ('from',cs)
        if k<0.8:
            a,b = sorted(rnd.sample(CH,2), key=ord)
            return C.AnyBetween(a,b), [(ord(a),ord(b))], ('btw',a,b)
        n = rnd.choice(['AnyLetter','AnyDigit','AnyLowercaseLetter','AnyUppercaseLetter','AnyPunctuation','AnyWordChar'])
        m = {'AnyLetter':[(65,90),(97,122)],'AnyDigit':[(48,57)],'AnyLowercaseLetter':[(97,122)],'AnyUppercaseLetter':[(65,90)],
             'AnyPunctuation':[(33,47),(58,64),(91,96),(123,126)],'AnyWordChar':[(48,57),(65,90),(95,95),(97,122)]}[n]
        return getattr(C,n)(), m, (n,)
    stats=collections.Counter(); ex=collections.defaultdict(list)
    DIG = norm(runs(r'\d')); WS = norm(runs(r'\s')); W = norm(runs(r'\w'))
    MASK = norm(sub(DIG,[(48,57)]) + sub(WS,[(9,13),(32,32)]) + sub(W,[(48,57),(65,90),(95,95),(97,122)]))
    N=int(sys.argv[2]) if len(sys.argv)>2 else 300
    for i in range(N):
        try:
            a, ma, da = leaf()
        except Exception as e:
            stats['leaf-exc:'+type(e).__name__]+=1; continue
        prog=[da]
        ok=True
        for step in range(rnd.choice([1,2,3])):
            try:
                b, mb, db = leaf()
            except Exception as e:
                stats['leaf-exc:'+type(e).__name__]+=1; ok=False; break
            op = rnd.choice('|-')
            prog += [op, db]
            exp = norm(ma+mb) if op=='|' else sub(ma,mb)
            try:
                a = (a|b) if op=='|' else (a-b)
                if not exp: stats['MISSING EmptyClass']+=1; ex['missing-empty'].append((prog[:],str(a))); ok=False; break
                ma = exp
            except E.EmptyClassException:
                if exp: stats['SPURIOUS EmptyClass']+=1; ex['spurious-empty'].append(prog[:])
                else: stats['ok-empty']+=1
                ok=False; break
            except Exception as e:
                stats['exc:'+type(e).__name__]+=1; ex['exc'].append((prog[:],repr(e)[:80])); ok=False; break
        if not ok: continue
        try:
            got = norm(runs(str(a)))
        except Exception as e:
            stats['compile-exc:'+type(e).__name__]+=1; ex['compile'].append((prog[:],str(a))); continue
        g2, m2 = sub(got, MASK), sub(ma, MASK)
        if g2 == m2: stats['ok']+=1
        else:
            stats['MISMATCH']+=1
            if len(ex['mismatch'])<15: ex['mismatch'].append((prog[:], str(a), sub(g2,m2)[:3], sub(m2,g2)[:3]))
    print(stats)
    for k,v in ex.items():
        print('==',k)
        for x in v[:12]: print('   ',x)
    