import re, random, sys, warnings
warnings.simplefilter("ignore")
from pregex.core.pre import Pregex
import re._parser as sp
FL=re.M|re.S
rnd=random.Random(1)
AL = ['\\','n','\n',"'",'"','a','\t','\x00','\x7f','é','\u2028','\U0001F600','\ud800','x','0','1','u','N','{','}',' ','#']
bad=0; tot=0; notprint=0
for i in range(20000):
    s=''.join(rnd.choice(AL) for _ in range(rnd.choice([1,2,3,4,5])))
    p=Pregex(s)
    tot+=1
    try:
        a=sp.parse(str(p),FL); 
    except Exception as e:
        print('internal fails',repr(s),e); bad+=1; continue
    gp=p.get_pattern()
    if not gp.isprintable(): notprint+=1
    try:
        b=sp.parse(gp,FL)
    except Exception as e:
        bad+=1
        if bad<10: print('export fails',repr(s),repr(gp),e)
        continue
    if repr(a)!=repr(b):
        bad+=1
        if bad<10: print('DIFF',repr(s),repr(str(p)),repr(gp))
    lits=[c for op,c in a]
    if any(op is not sp.LITERAL for op,c in a) or ''.join(map(chr,lits))!=s:
        bad+=1
        if bad<20: print('NOTLIT',repr(s),repr(str(p)))
print(tot,bad,'notprintable',notprint)
