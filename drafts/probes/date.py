import re, itertools, warnings, collections, time, random
warnings.simplefilter("ignore")
from pregex.meta.essentials import *
from pregex.core.exceptions import *
# Date model
def date_formats():
    out=[]
    for d in ('dd','d'):
        for m in ('mm','m'):
            for y in ('yyyy','yy'):
                for tpl in ((d,m,y),(m,d,y),(y,m,d)):
                    for sep in '-/': out.append(sep.join(tpl))
    return out
PART={'d':r'[1-9]','dd':r'(?:0[1-9]|[12][0-9]|3[01])','m':r'[1-9]','mm':r'(?:0[1-9]|1[0-2])','yy':r'[0-9]{2}','yyyy':r'[0-9]{4}'}
def model(fmt):
    sep='-' if '-' in fmt else '/'
    return re.compile(re.escape(sep).join(PART[x] for x in fmt.split(sep)))
fmts=date_formats(); print(len(fmts), len(set(fmts)))
stats=collections.Counter(); ex=[]
t0=time.time()
vals2=['%02d'%i for i in range(0,100)]+[str(i) for i in range(0,10)]+['','100','001']
for fmt in fmts:
    p=Date(fmt); pe=Date(fmt,is_extensible=True); mo=model(fmt)
    sep='-' if '-' in fmt else '/'
    parts=fmt.split(sep)
    base={'d':'5','dd':'15','m':'7','mm':'11','yy':'21','yyyy':'2021'}
    for idx,part in enumerate(parts):
        for v in vals2+['2021','202','20211']:
            for s2 in (sep, '/' if sep=='-' else '-'):
                comp=[base[x] for x in parts]; comp[idx]=v
                s=comp[0]+sep+comp[1]+s2+comp[2]
                exp=bool(mo.fullmatch(s))
                for pat,nm in ((p,'std'),(pe,'ext')):
                    got=pat.is_exact_match(s)
                    if got!=exp:
                        stats[nm+':BAD']+=1
                        if len(ex)<10: ex.append((fmt,s,got,exp))
                    else: stats[nm+':ok']+=1
print(stats,time.time()-t0); [print(' ',x) for x in ex]
for bad in ['dd/mm/yy/yy','mm/yyyy/dd','d.m.yy','', 'DD/MM/YYYY', 'dd-mm/yyyy', 5, None]:
    try: r=Date(bad); print('Date',repr(bad),'->',str(r)[:40])
    except Exception as e: print('Date',repr(bad),'!!',type(e).__name__)
try: print(Date(['dd/mm/yyyy', 5]))
except Exception as e: print(type(e).__name__, e)
