import re, itertools, warnings, collections, time, random
warnings.simplefilter("ignore")
from pregex.meta.essentials import *
stats=collections.Counter(); ex=[]
DIG='0123456789abcdef'
for base in range(2,17):
    for nmin,nmax in [(1,None),(0,None),(0,0),(1,1),(2,2),(1,3),(0,2),(3,None),(2,5)]:
        try: p=Numeral(base,nmin,nmax)
        except Exception as e: stats['ctor:'+type(e).__name__]+=1; ex.append((base,nmin,nmax,repr(e))); continue
        alpha=DIG[:base]
        for L in range(0,8):
            for s in [alpha[-1]*L, (alpha[-1].upper())*L, ('0'+alpha[-1])*L and ('0'+alpha[-1]*L)[:L], (DIG[base] if base<16 else 'g')*L, alpha[-1]*(L-1)+(DIG[base] if base<16 else 'g') if L else '']:
                exp = all(c.lower() in alpha for c in s) and nmin<=len(s) and (nmax is None or len(s)<=nmax)
                if s=='' : continue
                got=p.is_exact_match(s)
                if got!=exp: stats['BAD']+=1; ex.append((base,nmin,nmax,s,got,exp))
                else: stats['ok']+=1
print(stats); [print(' ',x) for x in ex[:15]]
print(str(Numeral(16)), str(Numeral(2)), str(Numeral(10,0,0)), str(Numeral(11)))
for a in [dict(min_chars=2,max_chars=2), dict(max_chars=1), dict(is_global=False)]:
    print(a, str(Word(**a)))
print(str(WordContains(['a.b','c|d'])), str(WordStartsWith('x$')), str(WordEndsWith(['$'])))
print(WordEndsWith('$').get_matches('cash$ money'), WordStartsWith('$').get_matches('$cash money'))
print(str(Decimal(1,5,1,2)), Decimal().get_matches('1.5 .5 01.5 1.55.5 a1.5 1.5a 1..5'))
