import warnings, itertools, collections; warnings.simplefilter("ignore")
from pregex.core.pre import Pregex
from pregex.core import quantifiers as Q, assertions as A, exceptions as E
T,V,R=E.InvalidArgumentTypeException,E.InvalidArgumentValueException,E.CannotBeRepeatedException
def expect(x_nonrep,n,m,has_m):
    bad=set()
    def isint(v): return isinstance(v,int) and not isinstance(v,bool)
    if not isint(n): bad.add(T)
    if has_m and m is not None and not isint(m): bad.add(T)
    if not bad:
        if n<0: bad.add(V)
        if has_m and m is not None and (m<0 or m<n): bad.add(V)
    return bad
vals=[0,1,2,3,-1,True,False,1.5,'2',None]
ops={'a':lambda:Pregex('ab'),'anch':lambda:A.MatchAtStart('a'),'empty':lambda:Pregex()}
bad=collections.Counter(); tot=0
def run(label,f,exp,nonrep,repeating):
    global tot; tot+=1
    try: r=f(); out=('ok',str(r))
    except Exception as e: out=('exc',type(e))
    if exp:
        ok = out[0]=='exc' and (out[1] in exp or (nonrep and out[1] is R))
    else:
        if nonrep and repeating: ok = out==('exc',R)
        else: ok = out[0]=='ok'
    if not ok: bad[(label,str(out),tuple(sorted(t.__name__ for t in exp)))]+=1
for on,mk in ops.items():
    nonrep = on=='anch'
    for n in vals:
        # exactly-like
        e=expect(nonrep,n,n,False); rep = (not e) and n>1
        for lab,f in [('Exactly',lambda: Q.Exactly(mk(),n)),('exactly',lambda: mk().exactly(n)),('mul',lambda: mk()*n),('rmul',lambda: n*mk())]:
            run(f'{lab}({on},{n!r})',f,e,nonrep,rep)
        e=expect(nonrep,n,None,False); 
        for lab,f in [('AtLeast',lambda: Q.AtLeast(mk(),n)),('at_least',lambda: mk().at_least(n,False))]:
            run(f'{lab}({on},{n!r})',f,e,nonrep,not e)
        # at_most: n may be None
        if n is None: e=set(); rep=True
        else: e=expect(nonrep,n,n,False); rep=(not e) and n>1
        for lab,f in [('AtMost',lambda: Q.AtMost(mk(),n)),('at_most',lambda: mk().at_most(n))]:
            run(f'{lab}({on},{n!r})',f,e,nonrep,rep)
        for m in vals:
            e=expect(nonrep,n,m,True); rep=(not e) and (m is None or m>1)
            for lab,f in [('AtLeastAtMost',lambda: Q.AtLeastAtMost(mk(),n,m)),('alam',lambda: mk().at_least_at_most(n,m,False))]:
                run(f'{lab}({on},{n!r},{m!r})',f,e,nonrep,rep)
print('total',tot,'bad',sum(bad.values()))
for k,c in list(bad.items())[:60]: print(k)
