import sys,pickle,collections; sys.path.insert(0,'/tmp/probe')
from proto import LEAF
stats,ex,depth1=pickle.load(open('/tmp/probe/census1.pkl','rb'))
def has(t,op):
    if not isinstance(t,tuple): return False
    if t and t[0]==op: return True
    return any(has(a,op) if isinstance(a,tuple) else any(has(b,op) for b in a) if isinstance(a,list) else False for a in t[1:])
def feat(t):
    if t[0] in LEAF: return t[0]+':'+repr(t[1] if len(t)>1 else '')
    if t[0] in ('cat','alt','enc'): return t[0]+'('+','.join(feat(a) for a in t[1])+')'
    if t[0]=='cond': return 'cond('+feat(t[2])+','+(feat(t[3]) if t[3] else '-')+')'
    if t[0]=='q': return 'q%s,%s%s('%(t[2],t[3],'' if t[4] else 'L')+feat(t[1])+')'
    if t[0] in('fol','nfol','pre','npre','lenc','nlenc'): return t[0]+'('+feat(t[1])+','+feat(t[2])+')'
    return t[0]+'('+feat(t[1])+')'
print(stats)
for k,v in ex.items():
    rows=[(form,t,d,rt,rf) for form,t,d,rt,rf in v if not has(t,'cond') and form=='class']
    print('=====',k,'non-cond class-form:',len(rows))
    byop=collections.Counter(t[0] for _,t,_,_,_ in rows); print('   by root op:',dict(byop))
    for form,t,d,rt,rf in rows[:int(sys.argv[1]) if len(sys.argv)>1 else 25]: print('     ',feat(t),'|',d,'|',rt)
