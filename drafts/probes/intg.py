import re, random, sys, warnings, collections, time
warnings.simplefilter("ignore")
from pregex.meta.essentials import *
rnd=random.Random(int(sys.argv[1]) if len(sys.argv)>1 else 0)
stats=collections.Counter(); ex=collections.defaultdict(list)
def rnd_int():
    k=rnd.random()
    L=rnd.choice([1,1,2,2,3,3,4,5])
    if k<0.3: return rnd.choice([0,1,9,10,11,19,20,99,100,101,109,110,199,200,255,256,999,1000,1001,1099,9999,10000])
    return rnd.randrange(0,10**L)
t0=time.time()
for it in range(int(sys.argv[2]) if len(sys.argv)>2 else 300):
    a,b=sorted((rnd_int(),rnd_int()))
    try:
        p=Integer(a,b)
    except Exception as e:
        stats['ctor-exc:'+type(e).__name__]+=1; ex['ctor'].append((a,b,repr(e)[:60])); continue
    cands=set([a,b,a-1,b+1,a+1,b-1,0,1,9,10,99,100,int(str(b)+'0'), b*10+9, a//10, b//10] + [rnd_int() for _ in range(20)])
    for v in cands:
        if v<0: continue
        for s in (str(v), '0'+str(v), '00'+str(v)):
            exp = (s==str(int(s))) and a<=int(s)<=b
            for ctx,(l,r_) in {'bare':('',''),'sp':(' ',' '),'punct':('(',')')}.items():
                text=l+s+r_
                got=p.get_matches(text)
                ok = (got==[s]) if exp else (got==[])
                stats['ok' if ok else 'BAD:'+ctx+(':lead0' if s[0]=='0' and len(s)>1 else '')+(':exp' if exp else ':unexp')]+=1
                if not ok and len(ex[ctx])<8: ex[ctx].append((a,b,text,got,exp))
print(stats, time.time()-t0)
for k,v in ex.items():
    print('==',k); [print('   ',x) for x in v]
