"""C12 / finding 4 (low priority, same family as finding 3 but a different cause): the text of a regex comment
(?#...) is scanned as if it were pattern syntax.  A '(' inside a comment makes a pattern that IS a single named
capturing group unrecognisable as one, so Capture(P, name='k') - documented to "change the group's name" -
adds a second group instead: two captures per match, and the old name survives."""
import re, sys, warnings
warnings.simplefilter('ignore')
from pregex.core.pre import Pregex
from pregex.core.groups import Capture

raw = '(?P<x>ab(?#see (1))'          # one named group: 'ab' + comment "see (1"
control = '(?P<x>ab(?#see 1))'       # same thing, comment without the parenthesis
assert re.compile(raw).groups == 1 and re.compile(control).groups == 1
text = 'zabz'
res = {}
for label, r in (('control', control), ('raw', raw)):
    q = Capture(Pregex(r, escape=False), name='k')
    res[label] = (q.get_pattern(), q.get_captures(text), q.get_named_captures(text))
    print(f"{label:8s} {r!r:28s} -> Capture(P, name='k') = {res[label][0]!r}")
    print(f"{'':8s} get_captures -> {res[label][1]}   get_named_captures -> {res[label][2]}")
if res['raw'][1:] == res['control'][1:] == ([('ab',)], [{'k': 'ab'}]):
    sys.exit(0)
print("VIOLATION: the two equivalent one-group patterns yield different group layouts; with '(' in the comment the "
      "match reports two capturing groups and keeps the name 'x'")
sys.exit(1)
