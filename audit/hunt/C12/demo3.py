"""C12 / finding 3: a negated character class whose first member is a literal ']' ( [^]...] ) is cut short by the
type inference ('[^]' is taken for the whole class), so parentheses that are members of the class are counted as
group delimiters.  Consequences for captures:
  (a) a pattern made of TWO named groups is taken for ONE group: Capture(P, name='k') renames the first group instead
      of wrapping both -> the named group 'x' disappears and 'k' is reported at x's position, not at P's;
  (b) a pattern that IS one capturing group is not recognised: Capture(P, name='k') adds a second group instead of
      naming the existing one (documented: "assigns a name to it")."""
import re, sys, warnings
warnings.simplefilter('ignore')
from pregex.core.pre import Pregex
from pregex.core.groups import Capture

FLAGS = re.M | re.S
bad = 0

# (a) name '(' args : x = everything but ']' and '(' ; y = everything but ']' and ')'
raw = '(?P<x>[^](]+)(?P<y>[^])]+)'
text = 'f(x)'
P = Pregex(raw, escape=False)
q = Capture(P, name='k')
expected = [{'k': (m.group(0), *m.span(0)), **{n: (m.group(n), *m.span(n)) for n in ('x', 'y')}}
            for m in re.finditer(raw, text, FLAGS)]          # k wraps the whole of P
got = q.get_named_captures_and_pos(text)
print("(a) raw pattern P          :", raw)
print("    Capture(P, name='k')   :", q.get_pattern())
print("    text                   :", repr(text))
print("    expected named captures:", expected)
print("    got                    :", got)
if got != expected:
    bad += 1
    print("    VIOLATION: named group 'x' is missing and 'k' is reported at the position/text of group x")

# (b) one capturing group holding such a class
raw1 = '([^])]+)'
q1 = Capture(Pregex(raw1, escape=False), name='k')
got1 = q1.get_captures('f(x)')
exp1 = [m.groups() for m in re.finditer(raw1, 'f(x)', FLAGS)]
print("(b) raw pattern            :", raw1)
print("    Capture(P, name='k')   :", q1.get_pattern())
print("    expected captures      :", exp1, "(one group, now named k)")
print("    got                    :", got1)
if got1 != exp1:
    bad += 1
    print("    VIOLATION: two entries per match for a pattern with one capturing group")
sys.exit(1 if bad else 0)
