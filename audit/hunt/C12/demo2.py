"""C12 / finding 2: after Pregex.compile() the capture methods answer for a DIFFERENT regular expression.
compile() compiles get_pattern() (a repr()-based display string) instead of the underlying pattern; the display string
is not equivalent when the pattern holds a backslash followed by a character that repr() escapes
(newline, tab, other non-printables, a quote) - e.g. anything produced by re.escape() on text with a newline."""
import re, sys, warnings
warnings.simplefilter('ignore')
from pregex.core.pre import Pregex
from pregex.core.groups import Capture

FLAGS = re.M | re.S
raw = re.escape('a\nb')                       # 'a\\\nb' : a, backslash, NEWLINE, b   (valid regex, matches 'a\nb')
p = Capture(Pregex(raw, escape=False), name='n') + Capture('c')
text = 'xa\nbcy'
oracle = [[(m.group(i), *m.span(i)) for i in (1, 2)] for m in re.finditer(str(p), text, FLAGS)]

before = p.get_captures_and_pos(text)
before_named = p.get_named_captures(text)
p.compile()
after = p.get_captures_and_pos(text)
after_named = p.get_named_captures(text)

print("pattern (str)        :", repr(str(p)))
print("pattern (compiled as):", repr(p.get_pattern()))
print("text                 :", repr(text))
print("re oracle            :", oracle)
print("before compile()     :", before, before_named)
print("after  compile()     :", after, after_named)
if before == oracle and after == oracle and before_named == after_named:
    sys.exit(0)
print("VIOLATION: the same object reports different captures for the same text after compile() "
      "(the match and both of its groups are lost)")
sys.exit(1)
