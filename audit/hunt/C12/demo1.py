"""C12 / finding 1: with relative_to_match=True, a capturing group that lies inside a lookbehind / lookahead
gets a position that does NOT reproduce the captured text when the match is sliced at it
(negative or past-the-end indices; an empty capture can even collide with the (None, -1, -1) sentinel's position).
Pure public API, no raw patterns."""
import sys, warnings
warnings.simplefilter('ignore')
from pregex.core.groups import Capture
from pregex.core.assertions import PrecededBy, FollowedBy, WordBoundary

cases = [
    ("PrecededBy('cd', Capture('a') + 'b')", PrecededBy('cd', Capture('a') + 'b'), 'abcd'),
    ("FollowedBy('a', Capture('b'))", FollowedBy('a', Capture('b')), 'ab'),
    ("PrecededBy('b', Capture(WordBoundary()) + 'a')", PrecededBy('b', Capture(WordBoundary()) + 'a'), 'ab'),
    ("PrecededBy('cd', Capture('a', name='n') + 'b')   [named variant]", PrecededBy('cd', Capture('a', name='n') + 'b'), 'abcd'),
]
bad = 0
for label, p, text in cases:
    matches = p.get_matches(text)
    unnamed = p.get_captures_and_pos(text, relative_to_match=True)
    named = p.get_named_captures_and_pos(text, relative_to_match=True)
    absolute = p.get_captures_and_pos(text)
    for m, caps, ncaps, acaps in zip(matches, unnamed, named, absolute):
        if not ncaps:
            ncaps = {}
        else:
            caps = []          # named variant: judge the named form only
        # absolute positions are fine:
        for g, s, e in acaps:
            assert g is None or text[s:e] == g
        for g, s, e in list(caps) + list(ncaps.values()):
            if g is None:
                continue
            ok = 0 <= s <= e <= len(m) and m[s:e] == g
            if not ok:
                bad += 1
                print(f"VIOLATION  {label}\n   pattern {p.get_pattern()!r}  text {text!r}  match {m!r}\n"
                      f"   reported (relative_to_match=True): {(g, s, e)!r}   but " +
                      (f"match[{s}:{e}] == {m[s:e]!r} != {g!r}" if m[s:e] != g else
                       f"({s}, {e}) is not a position inside the match {m!r} (len {len(m)})"))
                if (s, e) == (-1, -1):
                    print("   (a participating group is reported at (-1, -1), the position reserved for non-participating groups)")
sys.exit(1 if bad else 0)
