"""
C05 demo 1 - the empty pattern is only a RIGHT identity of concatenation / Enclose at the text level.

An empty pattern placed to the LEFT of an alternation in a concatenation (or used as the enclosing
pattern of Enclose around an alternation) changes the emitted text: the alternation comes back wrapped
in a non-capturing group, whereas the same expression without the empty pattern emits the bare
alternation.  (The two texts are semantically equivalent - this is a text-level deviation only.)

Exits 1 while the deviation is present, 0 otherwise.
"""
import sys
import warnings
warnings.simplefilter("ignore")

from pregex.core.pre import Pregex
from pregex.core.operators import Concat, Either, Enclose
from pregex.core.quantifiers import Exactly

alt = Either('a', 'b')
expected = str(alt)                      # 'a|b'  == the expression with the empty pattern removed

cases = {
    "Pregex().concat(Either('a','b'))": lambda: Pregex().concat(alt),
    "Pregex() + Either('a','b')": lambda: Pregex() + alt,
    "'' + Either('a','b')": lambda: '' + alt,
    "Concat(Pregex(), Either('a','b'))": lambda: Concat(Pregex(), alt),
    "Concat(Exactly('x', 0), Either('a','b'))": lambda: Concat(Exactly('x', 0), alt),
    "Either('a','b').enclose(Pregex())": lambda: alt.enclose(Pregex()),
    "Enclose(Either('a','b'), Pregex())": lambda: Enclose(alt, Pregex()),
    # control: empty on the right is a true identity
    "Concat(Either('a','b'), Pregex())  [control]": lambda: Concat(alt, Pregex()),
}

bad = 0
for name, f in cases.items():
    got = str(f())
    ok = got == expected
    print(f"{'ok ' if ok else 'BAD'}  {name:50s} -> {got!r}   (empty-free expression: {expected!r})")
    if not ok:
        bad += 1

if bad:
    print(f"\n{bad} construction(s) with an empty sub-pattern emit a different text than the empty-free expression")
    sys.exit(1)
print("\nempty pattern is a two-sided textual identity of concatenation and Enclose")
sys.exit(0)
