"""
C05 demo 2 (borderline - see findings.md) - an empty pattern that ends up as the LATER alternative of an
alternation through  Pregex.either(pre, on_right=False)  is not dropped.

    Pregex().either('abc', on_right=False)   ->  'abc|'

The empty pattern is `self`, the other pattern is put on the left, so the empty pattern is the last
alternative; the result additionally matches the empty string everywhere.  The mirrored call
Pregex('abc').either(Pregex())  correctly gives 'abc'.

NOTE: tests/test_core_pre.py::TestPregexEmpty.test_empty_on_operators pins 'abc|', and the root cause
(either() only looks at `pre`, never at `self`, for emptiness) is the same as for the excluded
"empty FIRST alternative" corner.  So this is most likely outside the property's scope.

Exits 1 while the behaviour is present, 0 otherwise.
"""
import sys
import warnings
warnings.simplefilter("ignore")

from pregex.core.pre import Pregex
from pregex.core.quantifiers import Exactly

bad = 0
for name, empty in (("Pregex()", Pregex()), ("Exactly('x', 0)", Exactly('x', 0))):
    got = empty.either('abc', on_right=False)
    mirrored = Pregex('abc').either(empty)
    text = 'xabc'
    print(f"{name}.either('abc', on_right=False) -> {str(got)!r}; matches on {text!r}: {got.get_matches(text)}")
    print(f"Pregex('abc').either({name})          -> {str(mirrored)!r}; matches on {text!r}: {mirrored.get_matches(text)}")
    if str(got) != 'abc' or got.get_matches(text) != mirrored.get_matches(text):
        bad += 1

if bad:
    print("\nempty pattern as later alternative was NOT dropped")
    sys.exit(1)
print("\nempty pattern as later alternative is dropped")
sys.exit(0)
