"""C02 / repeatable flag: a composition that has a positive lookahead somewhere in its middle (or nested inside a
negative lookahead) and merely *ends in ')'* is taken for "a pattern that ends in a lookahead" and every repeating
quantifier refuses it, although the fully parenthesised composition is a perfectly legal regex and the sibling
expression that ends in a plain character is accepted.

Exits 1 (and prints the offending expressions) on the defective code, 0 once repaired.
"""
import re
import sys
import warnings
warnings.simplefilter("ignore")

from pregex.core.assertions import FollowedBy, NotFollowedBy
from pregex.core.groups import Capture
from pregex.core.quantifiers import Indefinite, OneOrMore, AtLeastAtMost
from pregex.core.exceptions import CannotBeRepeatedException

FLAGS = re.MULTILINE | re.DOTALL


def results(pattern, text):
    return [(m.span(), m.groups()) for m in re.finditer(pattern, text, FLAGS)]


cases = [
    # (description, operand builder, fully parenthesised reference of  Indefinite(operand))
    ("Indefinite(FollowedBy('a','b') + Capture('b'))",
     lambda: FollowedBy('a', 'b') + Capture('b'),
     r"(?:(?:(?:a)(?=b))(?:(b)))*"),
    ("Indefinite(FollowedBy('a','b').concat(Capture('b')))   [method spelling]",
     lambda: FollowedBy('a', 'b').concat(Capture('b')),
     r"(?:(?:(?:a)(?=b))(?:(b)))*"),
    ("Indefinite(NotFollowedBy('a', FollowedBy('b','c')))   [negative lookahead: documented as repeatable]",
     lambda: NotFollowedBy('a', FollowedBy('b', 'c')),
     r"(?:(?:a)(?!(?:b)(?=c)))*"),
    ("Indefinite(FollowedBy('a','b') + NotFollowedBy('b','c'))   [ends in a *negative* lookahead]",
     lambda: FollowedBy('a', 'b') + NotFollowedBy('b', 'c'),
     r"(?:(?:(?:a)(?=b))(?:(?:b)(?!c)))*"),
]
texts = ["", "ab", "abab", "abc", "ababc", "aab", "abbc abab", "a", "b"]

bad = 0

# control: the same expression with a plain last operand is accepted, so the refusal is not a documented rule
control = Indefinite(FollowedBy('a', 'b') + 'b')
print("control  Indefinite(FollowedBy('a','b') + 'b')  ->", str(control))

for label, build, reference in cases:
    operand = build()
    re.compile(reference, FLAGS)            # the fully parenthesised composition is a legal regex
    for qname, q in (("Indefinite", Indefinite), ("OneOrMore", OneOrMore),
                     ("AtLeastAtMost(.,2,3)", lambda p: AtLeastAtMost(p, 2, 3))):
        try:
            emitted = str(q(operand))
        except CannotBeRepeatedException as e:
            bad += 1
            print(f"VIOLATION  {label}\n    operand pattern : {str(operand)!r}\n    {qname} raised CannotBeRepeatedException: {e}"
                  f"\n    the fully parenthesised composition {reference!r} compiles and e.g. on 'abab' yields "
                  f"{results(reference, 'abab')}")
            break
        if qname == "Indefinite":
            for t in texts:
                if results(emitted, t) != results(reference, t):
                    bad += 1
                    print(f"VIOLATION  {label}: {emitted!r} differs from {reference!r} on {t!r}")
                    break

if bad:
    print(f"\n{bad} expression(s) refused / different")
    sys.exit(1)
print("all compositions accepted and equivalent to their fully parenthesised form")
sys.exit(0)
