"""C15 demo 5: with is_extensible=True nothing guards the right-hand side, so a proper part of a longer
digit run is matched - out-of-range values and leading-zero numerals are (partly) accepted.
The first case is the example from docs/source/documentation/subpackages.rst with its documented output."""
import sys
from pregex.core.classes import AnyLetter
from pregex.meta.essentials import Integer

bad = []
def expect(desc, got, exp):
    print(f"{desc} = {got!r}  (expected {exp!r})" + ('' if got == exp else '   <-- WRONG'))
    if got != exp:
        bad.append(desc)

pre = AnyLetter() + Integer(start=50, end=1000, is_extensible=True)
text = "a1 b5 c11 d23 e77 f117 g512 h789 i1011"
expect("docs example: (AnyLetter() + Integer(50, 1000, is_extensible=True)).get_matches(text)",
       pre.get_matches(text), ['e77', 'f117', 'g512', 'h789'])           # documented output

p = 'x' + Integer(0, 10, is_extensible=True)
expect("('x' + Integer(0, 10, is_extensible=True)).get_matches('x007')", p.get_matches('x007'), [])     # leading zeros
expect("('x' + Integer(0, 10, is_extensible=True)).get_matches('x105')", p.get_matches('x105'), [])     # 105 > 10
expect("('x' + Integer(0, 10, is_extensible=True)).get_matches('x10')", p.get_matches('x10'), ['x10'])

if bad:
    print("VIOLATION: a proper part of a longer digit run is matched")
    sys.exit(1)
print("OK")
sys.exit(0)
