"""C15 demo 2: bool arguments pass the isinstance(..., int) validation and are turned into the
digit strings 'True' / 'False' ('F' even collides with the internal filler character)."""
import sys
from pregex.meta.essentials import Integer
from pregex.core.exceptions import InvalidArgumentTypeException

bad = []
def check(start, end, lo, hi):
    try:
        p = Integer(start, end)
    except InvalidArgumentTypeException:
        print(f"Integer({start!r}, {end!r}) rejected with InvalidArgumentTypeException - fine")
        return
    except Exception as ex:
        print(f"Integer({start!r}, {end!r}) raised {type(ex).__name__}: {ex}")
        bad.append((start, end, 'undocumented exception'))
        return
    print(f"Integer({start!r}, {end!r}) -> pattern {p.get_pattern()!r}")
    for text in ['0', '1', '3', '5', '6', '1234', 'True', 'T234']:
        exp = [text] if text.isdigit() and lo <= int(text) <= hi else []
        got = p.get_matches(text)
        flag = '' if got == exp else '   <-- WRONG'
        print(f"   get_matches({text!r}) = {got}, range {lo}..{hi} demands {exp}{flag}")
        if got != exp:
            bad.append((start, end, text, got))

check(0, True, 0, 1)        # True == 1  -> must behave like Integer(0, 1)
check(False, 5, 0, 5)       # False == 0 -> must behave like Integer(0, 5)
check(True, 5, 1, 5)
if bad:
    print("VIOLATION:", len(bad), "wrong outcomes")
    sys.exit(1)
print("OK")
sys.exit(0)
