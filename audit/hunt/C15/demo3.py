"""C15 demo 3: with is_extensible=True a numeral at the very beginning of the text is never matched,
because the pattern starts with (?<=\\D) (a character MUST precede) instead of 'not preceded by a digit'."""
import sys
from pregex.core.quantifiers import Optional
from pregex.meta.essentials import Integer, UnsignedInteger

bad = []
def expect(desc, got, exp):
    print(f"{desc} = {got!r}  (expected {exp!r})" + ('' if got == exp else '   <-- WRONG'))
    if got != exp:
        bad.append(desc)

ext = Integer(3, 10, is_extensible=True)
print("pattern:", ext.get_pattern())
expect("Integer(3, 10, is_extensible=True).get_matches(' 5')", ext.get_matches(' 5'), ['5'])
expect("Integer(3, 10, is_extensible=True).get_matches('5')", ext.get_matches('5'), ['5'])
expect("Integer(3, 10, is_extensible=True).is_exact_match('5')", ext.is_exact_match('5'), True)
expect("UnsignedInteger(3, 10, is_extensible=True).is_exact_match('10')",
       UnsignedInteger(3, 10, is_extensible=True).is_exact_match('10'), True)

# a non-digit prefix pattern that may match the empty string
signed = Optional('-') + Integer(3, 10, is_extensible=True)
expect("(Optional('-') + Integer(3, 10, is_extensible=True)).get_matches('-5')", signed.get_matches('-5'), ['-5'])
expect("(Optional('-') + Integer(3, 10, is_extensible=True)).get_matches('x 5')", signed.get_matches('x 5'), ['5'])
expect("(Optional('-') + Integer(3, 10, is_extensible=True)).get_matches('5')", signed.get_matches('5'), ['5'])
expect("(Optional('-') + Integer(3, 10, is_extensible=True)).is_exact_match('5')", signed.is_exact_match('5'), True)

if bad:
    print("VIOLATION: in-range canonical numeral at the start of the text is not matched")
    sys.exit(1)
print("OK")
sys.exit(0)
