"""C15 demo 1: Unicode decimal digits are accepted in the 'free' digit positions (\\d) but not in the
range-bounded positions ([0-9] ranges) nor in the leading-zero guards (literal '0').
Exits 1 while the behaviour is inconsistent with BOTH possible readings of 'digit'."""
import sys
from pregex.meta.essentials import Integer

A0, A3, A9 = '٠', '٣', '٩'   # ARABIC-INDIC DIGITS ZERO, THREE, NINE  (int('٠' + '7') == 7)
cases = [
    # (description, pattern, text, expected if Unicode digits count as digits)
    ("Integer()",        Integer(),        A0 + '7',      False),  # leading zero, value 7
    ("Integer(0, 1000)", Integer(0, 1000), A0 + A0 + A0,  False),  # '000'
    ("Integer(0, 25)",   Integer(0, 25),   '1' + A3,      True),   # 13
    ("Integer(0, 25)",   Integer(0, 25),   '2' + A3,      True),   # 23
    ("Integer(0, 99)",   Integer(0, 99),   A9 + A9,       True),   # 99
    ("Integer(0, 100)",  Integer(0, 100),  A9 + A9,       True),   # 99
]
got = [p.is_exact_match(t) for _, p, t, _ in cases]
model_unicode = [e for *_, e in cases]       # Unicode Nd characters are digits (value as given by int())
model_ascii = [False] * len(cases)           # only 0-9 are digits: a text containing other characters is no numeral

for (d, p, t, e), g in zip(cases, got):
    print(f"{d}.is_exact_match({t!r}) [int value {int(t)}] -> {g}   (unicode-digit reading: {e}, ascii-only reading: False)")
print("get_matches examples:", Integer().get_matches('x ' + A0 + '7 y'), Integer(0, 25).get_matches('1' + A3 + ' 2' + A3))

if got == model_unicode or got == model_ascii:
    print("OK: consistent")
    sys.exit(0)
print("VIOLATION: leading-zero numerals are matched and equal-valued in-range numerals are treated differently")
sys.exit(1)
