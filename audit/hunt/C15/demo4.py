"""C15 demo 4: with is_extensible=True, PositiveInteger and Integer(include_sign=True) REQUIRE a sign,
although without is_extensible the sign is optional ("include any existing signs")."""
import sys
from pregex.meta.essentials import Integer, PositiveInteger

bad = []
def expect(desc, got, exp):
    print(f"{desc} = {got!r}  (expected {exp!r})" + ('' if got == exp else '   <-- WRONG'))
    if got != exp:
        bad.append(desc)

# reference: the non-extensible patterns match unsigned and signed numerals alike
expect("PositiveInteger(3, 10).get_matches('x 7 +7')", PositiveInteger(3, 10).get_matches('x 7 +7'), ['7', '+7'])
expect("Integer(3, 10, include_sign=True).get_matches('x 7 +7 -7')",
       Integer(3, 10, include_sign=True).get_matches('x 7 +7 -7'), ['7', '+7', '-7'])

pos = 'x' + PositiveInteger(3, 10, is_extensible=True)
print("pattern:", pos.get_pattern())
expect("('x' + PositiveInteger(3, 10, is_extensible=True)).is_exact_match('x+7')", pos.is_exact_match('x+7'), True)
expect("('x' + PositiveInteger(3, 10, is_extensible=True)).is_exact_match('x7')", pos.is_exact_match('x7'), True)
expect("('x' + PositiveInteger(3, 10, is_extensible=True)).is_exact_match('x2')", pos.is_exact_match('x2'), False)

sig = 'x' + Integer(3, 10, include_sign=True, is_extensible=True)
print("pattern:", sig.get_pattern())
expect("('x' + Integer(3, 10, include_sign=True, is_extensible=True)).is_exact_match('x-7')", sig.is_exact_match('x-7'), True)
expect("('x' + Integer(3, 10, include_sign=True, is_extensible=True)).is_exact_match('x7')", sig.is_exact_match('x7'), True)

if bad:
    print("VIOLATION: prefix + in-range canonical numeral is not matched in extensible mode")
    sys.exit(1)
print("OK")
sys.exit(0)
