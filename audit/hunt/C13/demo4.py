"""C13 / finding 4: replace() with a (legal, non-negative) count above sys.maxsize.

count is forwarded unchanged to re.sub, which converts it to a C ssize_t:
any count > sys.maxsize raises OverflowError instead of replacing the first
`count` matches (= all of them here).
"""
import sys
from pregex.core.pre import Pregex

pre, source = Pregex('a'), 'xayaz'
bad = False
for count in [sys.maxsize, sys.maxsize + 1, 10 ** 30]:
    try:
        got = pre.replace(source, '-', count)
    except Exception as e:
        got = e
    if got != 'x-y-z':
        bad = True
        print(f"Pregex('a').replace({source!r}, '-', count={count}) -> {got!r}; expected 'x-y-z'")
sys.exit(1 if bad else 0)
