"""C13 / finding 2: split_by_capture with a capturing group inside a lookahead.

The capturing group does not nest in any other group, but since a lookahead does
not consume, the spans captured by consecutive matches overlap (or are the very
same span twice).  split_by_capture then emits source[index:start] with
start < index (an empty piece) and moves the running index backwards / forwards
inconsistently; pieces + captures do not rebuild the source.

A repaired library either returns pieces that reconstruct the source or refuses
the pattern with one of its own exceptions; both make this script exit 0.
"""
import sys
from pregex.core.groups import Capture
from pregex.core.assertions import FollowedBy
from pregex.core.quantifiers import Indefinite
import pregex.core.exceptions as ex

cases = [
    (FollowedBy('a', Capture('aa')), 'aaaa'),          # a(?=(aa))  : spans (1,3) and (2,4)
    (FollowedBy(Indefinite('a'), Capture('b')), 'ab'), # a*(?=(b))  : span (1,2) captured twice
]
bad = False
for pre, source in cases:
    try:
        spans = [t for grp in pre.get_captures_and_pos(source) for t in grp if t[0] is not None]
        pieces = pre.split_by_capture(source)
    except Exception as e:
        if type(e).__module__ == ex.__name__:
            continue
        raise
    ok = len(pieces) == len(spans) + 1 and \
        ''.join(p + c[0] for p, c in zip(pieces, spans)) + pieces[-1] == source
    if not ok:
        bad = True
        print(f"pattern {pre.get_pattern()!r}, source {source!r}")
        print(f"  captured spans : {spans}")
        print(f"  pieces         : {pieces}")
        print(f"  interleaved    : {''.join(p + c[0] for p, c in zip(pieces, spans)) + pieces[-1]!r}")
sys.exit(1 if bad else 0)
