"""C13 / finding 3: replace() hands `repl` to re.sub as a *template*.

A plain replacement string that contains a backslash is not inserted as is:
"\\n" (backslash + n) becomes a newline, "\\g<0>" re-inserts the match, and
strings such as "\\" , "\\d" or "\\1" make replace() raise re.error.
The property demands replace(all) == repl.join(split_by_match(source)).
"""
import sys
from pregex.core.pre import Pregex

pre, source = Pregex('a'), 'xay'
bad = False
for repl in ['C:\\new', '\\', '\\d', '\\1', '\\g<0>', 'a\\\\b']:
    expected = repl.join(pre.split_by_match(source))
    try:
        got = pre.replace(source, repl)
    except Exception as e:
        got = e
    if got != expected:
        bad = True
        print(f"Pregex('a').replace({source!r}, {repl!r}) -> {got!r}; "
              f"joining the split pieces with the replacement gives {expected!r}")
sys.exit(1 if bad else 0)
