"""C13 / finding 1: split_by_capture assumes captured spans come in ascending order.

Two sibling (non-nested) capturing groups under an alternation that is repeated
can capture in the opposite order of their group numbers.  split_by_capture walks
the groups in group-number order with a running index, so the pieces it returns
contain captured text and interleaving pieces and captures no longer rebuilds the
source.
"""
import sys
from pregex.core.groups import Capture
from pregex.core.operators import Either
from pregex.core.quantifiers import OneOrMore

pre = OneOrMore(Either(Capture('a'), Capture('b')))      # (?:(a)|(b))+   - groups do not nest
bad = False
for source in ['ba', 'xxbayy']:
    for include_empty in (True, False):
        spans = [t for grp in pre.get_captures_and_pos(source, include_empty=include_empty)
                 for t in grp if t[0] is not None]
        pieces = pre.split_by_capture(source, include_empty=include_empty)

        def rebuild(sp):
            if len(pieces) != len(sp) + 1:
                return None
            return ''.join(p + c[0] for p, c in zip(pieces, sp)) + pieces[-1]

        in_reported_order = rebuild(spans)
        in_position_order = rebuild(sorted(spans, key=lambda t: (t[1], t[2])))
        if source not in (in_reported_order, in_position_order):
            bad = True
            print(f"pattern {pre.get_pattern()!r}, source {source!r}, include_empty={include_empty}")
            print(f"  captured spans : {spans}")
            print(f"  pieces         : {pieces}")
            print(f"  interleaved    : {in_reported_order!r} (group order) / "
                  f"{in_position_order!r} (position order)   != source {source!r}")
sys.exit(1 if bad else 0)
