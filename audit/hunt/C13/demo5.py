"""C13 / finding 5 (borderline): with is_path=True the source is read in text mode
with universal newlines, so "\\r\\n" and a lone "\\r" of the source silently become
"\\n": split_by_match / replace do not give back the source "byte for byte" and do
touch text that no match covers.
"""
import os, sys, tempfile
from pregex.core.pre import Pregex

content = 'a\r\nb\rc'
fd, path = tempfile.mkstemp(suffix='.txt')
with os.fdopen(fd, 'wb') as f:
    f.write(content.encode('utf-8'))
try:
    pre = Pregex('x')                      # no match anywhere in the source
    pieces = pre.split_by_match(path, is_path=True)
    replaced = pre.replace(path, 'y', is_path=True)
finally:
    os.remove(path)
bad = False
if ''.join(pieces) != content:
    bad = True
    print(f"source file content {content!r}: split_by_match(is_path=True) -> {pieces!r}")
if replaced != content:
    bad = True
    print(f"source file content {content!r}: replace(is_path=True), no match -> {replaced!r}")
sys.exit(1 if bad else 0)
