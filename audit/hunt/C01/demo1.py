"""
BORDERLINE (see findings.md, section 1): a plain string concatenated to a raw
pattern that switches on the global VERBOSE flag is re-read as regex syntax:
blanks are dropped and '#' starts a comment, because Pregex.__escape escapes
neither whitespace nor '#'.

Exits 1 while the str operand is re-interpreted, 0 if it is matched literally.
"""
import sys
from pregex.core.pre import Pregex
from pregex.core.operators import Concat

s = "a b#c"
flag = Pregex("(?x)", escape=False)      # documented way to hand over a raw pattern

failures = []
for name, p in (
    ("Pregex('(?x)', escape=False) + s", flag + s),
    ("Concat(flag, s)", Concat(flag, s)),
    ("flag.concat(s)", flag.concat(s)),
):
    ok_literal = p.is_exact_match(s)
    wrong = [t for t in ("ab", "a b", "abc") if p.is_exact_match(t)]
    if not ok_literal or wrong:
        failures.append((name, str(p), ok_literal, wrong))

if failures:
    for name, pat, ok, wrong in failures:
        print(f"{name}: pattern {pat!r}; exact-matches {s!r}: {ok}; "
              f"also exact-matches other texts: {wrong}")
    print("VIOLATION: characters of the str operand (blank, '#') were re-interpreted as regex syntax")
    sys.exit(1)
print("ok: the str operand is matched literally")
sys.exit(0)
