"""C06 demo 3: AnyKoreanLetter / AnyButKoreanLetter leave out every vowel letter of the Korean alphabet.

Documented set: "Matches any character from the Korean alphabet."  The class text is
[ㄱ-ㅎ가-힣]: the consonant letters (HANGUL LETTER KIYEOK .. HIEUH) and the syllable blocks.
The vowel letters of the same alphabet, U+314F..U+3163 (HANGUL LETTER A .. HANGUL LETTER I), are not matched,
and AnyButKoreanLetter ("any character except for characters in the Korean alphabet") matches them.
Exits 1 while a vowel letter of the alphabet is outside the class.
"""
import re
import sys
import unicodedata
import warnings

warnings.simplefilter("ignore")
from pregex.core.classes import AnyKoreanLetter, AnyButKoreanLetter

kor, but = AnyKoreanLetter(), AnyButKoreanLetter()
# modern Hangul letters (jamo) as encoded for stand-alone use: U+3131..U+3163
letters = [chr(cp) for cp in range(0x3131, 0x3164)]
assert all(unicodedata.name(c).startswith("HANGUL LETTER ") for c in letters)

not_matched = [c for c in letters if re.fullmatch(str(kor), c) is None]
matched_by_but = [c for c in letters if re.fullmatch(str(but), c) is not None]
print(f"AnyKoreanLetter() pattern {str(kor)!r}")
if not_matched or matched_by_but:
    print(f"{len(not_matched)} of the {len(letters)} letters U+3131..U+3163 are not matched by AnyKoreanLetter:")
    for c in not_matched:
        print(f"  U+{ord(c):04X} {c} {unicodedata.name(c)}")
    print(f"AnyButKoreanLetter() matches {len(matched_by_but)} of them, e.g. "
          f"AnyButKoreanLetter().is_exact_match({matched_by_but[0]!r}) = {but.is_exact_match(matched_by_but[0])}")
    print("consonant 'ㄱ' matched:", kor.is_exact_match('ㄱ'), "| vowel 'ㅏ' matched:", kor.is_exact_match('ㅏ'),
          "| syllable '가' (= ㄱ + ㅏ) matched:", kor.is_exact_match('가'))
    sys.exit(1)
print("every letter of the Korean alphabet is matched")
sys.exit(0)
