"""C06 demo 1: class constructors accept Pregex objects that are not tokens and read them as a letter.

Documented (AnyFrom/AnyButFrom/AnyBetween/AnyButBetween): InvalidArgumentTypeException is raised when an
argument "is neither a string of length one nor an instance of a class defined within pregex.core.tokens".
On the current code a character class, an assertion or a backreference is accepted silently and the
backslash of its pattern is dropped, so AnyFrom(AnyDigit()) is the class {'d'}.
Exits 1 while the defect is present, 0 once every such argument is refused.
"""
import re
import sys
import warnings

warnings.simplefilter("ignore")

from pregex.core.classes import (AnyFrom, AnyButFrom, AnyBetween, AnyButBetween,
                                 AnyDigit, AnyButDigit, AnyWhitespace, AnyWordChar, Any)
from pregex.core.assertions import WordBoundary
from pregex.core.groups import Backreference
from pregex.core.exceptions import InvalidArgumentTypeException

non_tokens = [
    ("AnyDigit()", AnyDigit),
    ("AnyButDigit()", AnyButDigit),
    ("AnyWhitespace()", AnyWhitespace),
    ("AnyWordChar(is_global=True)", lambda: AnyWordChar(is_global=True)),
    ("Any()", Any),
    ("WordBoundary()", WordBoundary),
    ("Backreference(1)", lambda: Backreference(1)),
]
calls = [
    ("AnyFrom({0})", lambda a: AnyFrom(a)),
    ("AnyFrom('x', {0})", lambda a: AnyFrom('x', a)),
    ("AnyButFrom({0})", lambda a: AnyButFrom(a)),
    ("AnyBetween({0}, '~')", lambda a: AnyBetween(a, '~')),
    ("AnyButBetween('!', {0})", lambda a: AnyButBetween('!', a)),
]

probe = "0123456789 \t\ndDsSwWbB.x_"
bad = 0
for aname, amake in non_tokens:
    for cname, call in calls:
        label = cname.format(aname)
        try:
            obj = call(amake())
        except InvalidArgumentTypeException:
            continue
        except Exception as e:   # any other refusal is at least not a silent acceptance
            print(f"{label}: raised {type(e).__name__} instead of InvalidArgumentTypeException: {e}")
            bad += 1
            continue
        pat = str(obj)
        matched = ''.join(c for c in probe if re.fullmatch(pat, c))
        print(f"{label}: accepted, pattern {pat!r}, matches {matched!r} out of {probe!r}")
        bad += 1

if bad:
    print(f"\n{bad} calls with a non-token, non-string argument were not refused with "
          "InvalidArgumentTypeException (e.g. AnyFrom(AnyDigit()) matches 'd' and no digit).")
    sys.exit(1)
print("all non-token Pregex arguments are refused")
sys.exit(0)
