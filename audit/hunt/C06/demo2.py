"""C06 demo 2: AnyCJK / AnyButCJK do not denote the documented Unicode block.

Documented set (docstring of AnyCJK): "any character that is defined within the CJK Unified Ideographs
Unicode block" - the block is U+4E00..U+9FFF.  The class text is the hard-coded range [一-鿕]
(the state of Unicode 8), so the ideographs U+9FD6..U+9FFF, which are defined in that block, are not matched
by AnyCJK and are matched by AnyButCJK ("any character except for those defined within the block").
Oracle: the interpreter's own Unicode database.  Exits 1 while the sets differ.
"""
import re
import sys
import unicodedata
import warnings

warnings.simplefilter("ignore")
from pregex.core.classes import AnyCJK, AnyButCJK

BLOCK = range(0x4E00, 0xA000)   # CJK Unified Ideographs
defined = {chr(cp) for cp in BLOCK if unicodedata.name(chr(cp), "").startswith("CJK UNIFIED IDEOGRAPH-")}

cjk, but = AnyCJK(), AnyButCJK()
ALL = ''.join(map(chr, range(0x110000)))
got = set(re.findall(str(cjk), ALL))
got_but = set(re.sub(str(but), '', ALL))          # what AnyButCJK refuses

missing = sorted(defined - got)
extra = sorted(got - defined)
print(f"Unicode database {unicodedata.unidata_version}: {len(defined)} characters defined in U+4E00..U+9FFF")
print(f"AnyCJK() pattern {str(cjk)!r} matches {len(got)} code points; AnyButCJK() refuses {len(got_but)}")
if missing or extra or got_but != defined:
    if missing:
        print(f"defined in the block but not matched by AnyCJK (and matched by AnyButCJK): {len(missing)} characters, "
              f"U+{ord(missing[0]):04X}..U+{ord(missing[-1]):04X}, e.g. {missing[0]!r} = {unicodedata.name(missing[0])}")
        c = missing[0]
        print(f"  AnyCJK().is_exact_match({c!r}) = {cjk.is_exact_match(c)}, "
              f"AnyButCJK().is_exact_match({c!r}) = {but.is_exact_match(c)}")
    if extra:
        print(f"matched by AnyCJK but not defined in the block: {len(extra)}, e.g. U+{ord(extra[0]):04X}")
    sys.exit(1)
print("AnyCJK denotes exactly the characters defined in the block")
sys.exit(0)
