"""C20 demo 2: the same class expression gives NON-equivalent patterns under different PYTHONHASHSEED.

    (AnyDigit() | AnyBetween(';', '?')) | AnyFrom(':')

':' sits exactly between the ranges 0-9 and ;-?.  Which of the two ranges swallows it is decided by
the iteration order of a set of strings, i.e. by the hash seed.  If ;-? grows to :-? the range 0-9
survives and is rewritten to the shorthand \\d (which matches every Unicode decimal digit); if 0-9
grows to 0-: there is no \\d.  The resulting patterns accept different sets of characters.
(Same thing with AnyWhitespace / \\s.)

Exits 1 while rebuilding the expression under different hash seeds gives non-equivalent patterns.
"""
import json
import os
import subprocess
import sys

CHILD = r'''
import json, re, sys, warnings
warnings.simplefilter("ignore")
from pregex.core.classes import AnyDigit, AnyWhitespace, AnyBetween, AnyFrom
exprs = {
  "(AnyDigit() | AnyBetween(';','?')) | AnyFrom(':')":
      lambda: (AnyDigit() | AnyBetween(';', '?')) | AnyFrom(':'),
  "(AnyWhitespace() | AnyBetween('\\x0f','\\x11')) | AnyFrom('\\x0e')":
      lambda: (AnyWhitespace() | AnyBetween('\x0f', '\x11')) | AnyFrom('\x0e'),
}
out = {}
for name, f in exprs.items():
    p = f()
    accepted = [c for c in map(chr, range(0x3000)) if p.is_exact_match(c)]   # public API only
    out[name] = [str(p), len(accepted), ''.join(accepted)]
json.dump(out, sys.stdout)
'''

SEEDS = range(24)
results = {}
for seed in SEEDS:
    env = dict(os.environ, PYTHONHASHSEED=str(seed))
    r = subprocess.run([sys.executable, "-W", "ignore", "-c", CHILD], env=env,
                       capture_output=True, text=True, check=True)
    results[seed] = json.loads(r.stdout)

bad = False
for name in results[0]:
    groups = {}
    for seed in SEEDS:
        pattern, n, accepted = results[seed][name]
        groups.setdefault(accepted, []).append((seed, pattern, n))
    if len(groups) > 1:
        bad = True
        print("VIOLATION:", name)
        print("  rebuilt under different PYTHONHASHSEED values it accepts different character sets:")
        allsets = [set(a) for a in groups]
        common = set.intersection(*allsets)
        for accepted, members in groups.items():
            seed, pattern, n = members[0]
            extra = sorted(set(accepted) - common)
            print(f"  seeds {[m[0] for m in members]}: e.g. pattern {pattern!r} accepts {n} chars "
                  f"of U+0000..U+2FFF; only here: {len(extra)} chars, e.g. {extra[:4]!r}")
if bad:
    sys.exit(1)
print("ok: equivalent under all tested hash seeds")
sys.exit(0)
