"""C20 demo 1: compile() changes the matching behaviour of a Pregex (and of every alias of it).

compile() does not compile the object's pattern (str(self)); it compiles get_pattern(), i.e. a
repr()-based *display* form of it.  The two differ as soon as the pattern holds a backslash that
escapes a character which repr() itself writes as an escape sequence (newline, tab, ...), which is
exactly what re.escape() produces for multi-line text.

Exits 1 while the defect is present, 0 once compile() no longer changes behaviour.
"""
import re
import sys

from pregex.core.pre import Pregex

text = "line1\nline2\tend"
violations = []


def observe(p):
    return (str(p), p._get_type().name, p.has_match(text), p.is_exact_match(text),
            p.get_matches("xx " + text + " yy"))


# 1. directly: match, compile, match again ---------------------------------------------------
x = Pregex(re.escape(text), escape=False)      # a valid regex that matches `text` literally
assert re.fullmatch(str(x), text, re.M | re.S)  # sanity: the pattern itself is fine
before = observe(x)
x.compile()
after = observe(x)
if before != after:
    violations.append(("x.compile()", before, after))

# 2. through the documented 'returns itself' shortcut: compiling the *result* of an
#    expression changes the behaviour of its *operand* ---------------------------------------
a = Pregex(re.escape(text), escape=False)
before = observe(a)
b = a.concat("")            # empty operand -> returns a itself
b.compile()                 # the user compiles "b" ...
after = observe(a)          # ... and "a" behaves differently afterwards
if before != after:
    violations.append(("b = a.concat(''); b.compile()  [observing a]", before, after))

# 3. and it flips back again after get_compiled_pattern() (default discard_after=True) -------
c = Pregex("\\\n", escape=False)               # backslash-newline: matches one newline
hist = [c.is_exact_match("\n")]
c.compile();               hist.append(c.is_exact_match("\n"))
c.get_compiled_pattern();  hist.append(c.is_exact_match("\n"))
if len(set(hist)) != 1:
    violations.append(("is_exact_match('\\n') fresh / after compile() / after get_compiled_pattern()",
                       hist[0], hist[1:]))

if violations:
    for what, b4, aft in violations:
        print("VIOLATION after:", what)
        print("   before:", b4)
        print("   after :", aft)
    print("pattern str(x)        :", repr(str(x)))
    print("pattern compile() used:", repr(x.get_pattern()))
    sys.exit(1)
print("ok: compile() does not change behaviour")
sys.exit(0)
