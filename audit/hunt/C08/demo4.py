"""C08 demo 4: a negated character class whose first member is ']' and that also contains a parenthesis,
e.g. [^])] ("anything but ']' and ')'"), makes the library lose track of what is a group.
Exits 1 while the defect is present."""
import re, sys, warnings
warnings.simplefilter("ignore")
from pregex.core.pre import Pregex
from pregex.core.groups import Capture, Group

bad = []

def info(p):
    c = re.compile(str(p))
    inv = {v: k for k, v in c.groupindex.items()}
    return [inv.get(i) for i in range(1, c.groups + 1)]

for raw in ['[^])]', 'a[^](]']:
    assert re.compile(raw).groups == 0 and re.fullmatch(raw, raw[:-5] + 'x')
    operand = Pregex(raw, escape=False)
    once = Capture(operand)
    assert info(once) == [None], str(once)
    twice = Capture(once)
    if info(twice) != [None]:
        bad.append(f"Capture(Capture(Pregex({raw!r}, escape=False))) -> {str(twice)!r} has groups {info(twice)}, expected [None]")
    renamed = Capture(Capture(operand, 'x'), 'y')
    if info(renamed) != ['y']:
        bad.append(f"Capture(Capture(Pregex({raw!r}, escape=False), 'x'), 'y') -> {str(renamed)!r} has groups {info(renamed)}, expected ['y']")
    ungrouped = Group(Capture(operand, 'x'))
    if info(ungrouped) != []:
        bad.append(f"Group(Capture(Pregex({raw!r}, escape=False), 'x')) -> {str(ungrouped)!r} has groups {info(ungrouped)}, expected []")
    conv = Capture(Group(operand))
    if '(?:' in str(conv):
        bad.append(f"Capture(Group(Pregex({raw!r}, escape=False))) -> {str(conv)!r}, expected '({raw})' (Capture(Group(p)) converts)")

for b in bad:
    print("VIOLATION:", b)
sys.exit(1 if bad else 0)
