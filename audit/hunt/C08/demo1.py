"""C08 demo 1: Group() applied to a (raw) flagged / atomic non-capturing group rewrites the flag of a
*nested* group, or silently ignores is_case_insensitive=True.  Exits 1 while the defect is present."""
import re, sys, warnings
warnings.simplefilter("ignore")
from pregex.core.pre import Pregex
from pregex.core.groups import Group

FLAGS = re.MULTILINE | re.DOTALL
bad = []

def check(raw, ci, text, must_match):
    operand = Pregex(raw, escape=False)
    res = Group(operand, is_case_insensitive=ci)
    got = re.fullmatch(str(res), text, FLAGS) is not None
    same_groups = re.compile(str(res)).groups == re.compile(raw).groups
    if got != must_match or not same_groups:
        bad.append(f"Group(Pregex({raw!r}, escape=False), is_case_insensitive={ci}) -> {str(res)!r}: "
                   f"fullmatch({text!r}) is {got}, expected {must_match}")

# 1. plain re-grouping must not change the matched text: the operand matches 'A' (nested (?i:...)),
#    the re-grouped pattern must too.  Actual result '(?s:(?:a))' has lost the *nested* group's flag.
assert re.fullmatch('(?s:(?i:a))', 'A')
check('(?s:(?i:a))', False, 'A', True)
check('(?>(?i:a))', False, 'A', True)
check('(?-i:x(?i:b))', False, 'xB', True)
# 2. is_case_insensitive=True must make the whole group's content ignore case.
check('(?>a)', True, 'A', True)            # result stays '(?>a)'
check('(?s:a)', True, 'A', True)           # result stays '(?s:a)'
check('(?s:x(?:b))', True, 'XB', True)     # result '(?s:x(?i:b))': only the nested group ignores case
# 3. ... and only that: a nested group must not be switched to case-insensitive when the flag is off
check('(?s:x(?i:b))', False, 'xB', True)

for b in bad:
    print("VIOLATION:", b)
sys.exit(1 if bad else 0)
