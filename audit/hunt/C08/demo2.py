"""C08 demo 2: group names.  The three places that take a group name validate it with three different
rules, all narrower than the documented one ("word characters only, starting with a non-digit") and than `re`:
valid names are refused by Capture, and a name that Capture accepts is refused by Backreference.
Exits 1 while the defect is present."""
import re, sys, warnings
warnings.simplefilter("ignore")
from pregex.core.groups import Capture, Backreference, Conditional

bad = []

def attempt(label, f):
    try:
        return f()
    except Exception as e:
        bad.append(f"{label} raised {type(e).__name__}: {e}")
        return None

# every one of these is a word-character sequence starting with a non-digit, an identifier, and a legal re name
for name in ["é", "été", "α", "á"]:
    assert name.isidentifier() and re.compile(f"(?P<{name}>a)(?P={name})").groupindex == {name: 1}
    p = attempt(f"Capture('a', {name!r})", lambda: Capture('a', name))
    if p is not None and dict(re.compile(str(p)).groupindex) != {name: 1}:
        bad.append(f"Capture('a', {name!r}) -> {str(p)!r} does not carry the name")

# Capture accepts 'né' (and so does Conditional) - but the group cannot be referenced by Backreference
name = "né"
cap = attempt(f"Capture('a', {name!r})", lambda: Capture('a', name))
cond = attempt(f"Conditional({name!r}, 'b')", lambda: Conditional(name, 'b'))
ref = attempt(f"Backreference({name!r})  [name accepted by Capture and Conditional]", lambda: Backreference(name))
if cap is not None and ref is not None:
    pat = str(cap + ref)
    if re.fullmatch(pat, 'aa') is None:
        bad.append(f"{pat!r} does not match 'aa'")

for b in bad:
    print("VIOLATION:", b)
sys.exit(1 if bad else 0)
