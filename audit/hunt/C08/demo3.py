"""C08 demo 3: a regex comment that contains '(' makes the library lose track of what is a group:
Capture of a capture adds a second capture, Group of a capture does not un-capture, renaming wraps.
Exits 1 while the defect is present."""
import re, sys, warnings
warnings.simplefilter("ignore")
from pregex.core.pre import Pregex
from pregex.core.groups import Capture, Group

bad = []
raw = 'a(?#(c)'                       # valid: 'a' followed by the comment "(c"
assert re.fullmatch(raw, 'a') and re.compile(raw).groups == 0
operand = Pregex(raw, escape=False)

def info(p):
    c = re.compile(str(p))
    inv = {v: k for k, v in c.groupindex.items()}
    return [inv.get(i) for i in range(1, c.groups + 1)]

once = Capture(operand)
assert info(once) == [None], str(once)
twice = Capture(once)
if info(twice) != [None]:
    bad.append(f"Capture(Capture(Pregex({raw!r}, escape=False))) -> {str(twice)!r} has groups {info(twice)}, expected [None] (capture of a capture adds none)")
renamed = Capture(Capture(operand, 'x'), 'y')
if info(renamed) != ['y']:
    bad.append(f"Capture(Capture(Pregex({raw!r}, escape=False), 'x'), 'y') -> {str(renamed)!r} has groups {info(renamed)}, expected ['y'] (renaming)")
ungrouped = Group(Capture(operand, 'x'))
if info(ungrouped) != []:
    bad.append(f"Group(Capture(Pregex({raw!r}, escape=False), 'x')) -> {str(ungrouped)!r} has groups {info(ungrouped)}, expected [] (Group of a capture un-captures)")

for b in bad:
    print("VIOLATION:", b)
sys.exit(1 if bad else 0)
