r"""C09 demo 4: text inside a regex comment group "(?#...)" is read as pattern syntax by __infer_type.

 * "a(?#(?=b)" is 'a' followed by the comment "(?=b" - no assertion at all - yet it is REFUSED repetition
   (the comment text matches the positive-lookahead recogniser  .+\(\?=.+\) ).
 * A comment containing '(' unbalances __is_group / remove_groups, so direct MatchAtStart / FollowedBy
   instances over such an operand are ACCEPTED by repeating quantifiers.

All operands are valid regular expressions wrapped with escape=False (the library deliberately supports
comment groups there, see the "(?#" branch in __infer_type).
Exits 1 on the defective code, 0 once repaired.
"""
import re
import sys
import warnings
warnings.simplefilter("ignore")

from pregex.core.pre import Pregex
from pregex.core.assertions import MatchAtStart, FollowedBy
from pregex.core.quantifiers import OneOrMore, Exactly
from pregex.core.exceptions import CannotBeRepeatedException

R = lambda s: Pregex(s, escape=False)
violations = 0

free = R('a(?#(?=b)')
re.compile(str(free))
assert re.fullmatch(str(free), 'a') and re.fullmatch(str(free) + 'c', 'ac')  # nothing is asserted
for qdesc, q in (("OneOrMore", lambda p: OneOrMore(p)), ("Exactly 2", lambda p: Exactly(p, 2))):
    try:
        q(free)
    except CannotBeRepeatedException as ex:
        violations += 1
        print(f"VIOLATION: assertion-free Pregex('a(?#(?=b)', escape=False) refused by {qdesc}: {ex}")

direct = {
    "MatchAtStart(Pregex('a|(?#()', escape=False))": MatchAtStart(R('a|(?#()')),
    "FollowedBy('', Pregex('(?#()a', escape=False))": FollowedBy('', R('(?#()a')),
}
for desc, d in direct.items():
    re.compile(str(d))
    try:
        out = OneOrMore(d)
    except CannotBeRepeatedException:
        continue
    violations += 1
    print(f"VIOLATION: direct assertion {desc} (pattern {d.get_pattern()!r}) accepted by OneOrMore: {out.get_pattern()!r}")

if violations:
    sys.exit(1)
print("ok")
sys.exit(0)
