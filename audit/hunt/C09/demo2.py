"""C09 demo 2: a direct MatchAtStart / MatchAtEnd / MatchAtLineEnd / FollowedBy instance is ACCEPTED by
repeating quantifiers when its operand (a valid regular expression wrapped with escape=False) contains
the empty capturing group "()" next to an alternation.  remove_groups() cannot remove "()" (its group
regex needs at least one character of content), so the enclosing groups stay, the inner '|' is taken for
a top-level alternation and the whole anchored pattern is typed (Alternation, repeatable).

Exits 1 on the defective code, 0 once repaired.
"""
import re
import sys
import warnings
warnings.simplefilter("ignore")

from pregex.core.pre import Pregex
from pregex.core.assertions import MatchAtStart, MatchAtEnd, MatchAtLineEnd, FollowedBy
from pregex.core.quantifiers import OneOrMore, Exactly, AtLeastAtMost
from pregex.core.exceptions import CannotBeRepeatedException

R = lambda s: Pregex(s, escape=False)
cases = {
    "MatchAtStart(Pregex('()|a', escape=False))": MatchAtStart(R('()|a')),
    "MatchAtEnd(Pregex('(a|()b)', escape=False))": MatchAtEnd(R('(a|()b)')),
    "MatchAtLineEnd(Pregex('a|b()', escape=False))": MatchAtLineEnd(R('a|b()')),
    "FollowedBy('a', Pregex('()|b', escape=False))": FollowedBy('a', R('()|b')),
}
violations = 0
for desc, d in cases.items():
    re.compile(str(d))  # the direct assertion itself is a valid regex
    for qdesc, q in (("OneOrMore", lambda p: OneOrMore(p)), ("Exactly 3", lambda p: Exactly(p, 3)),
                     ("AtLeastAtMost 2,4", lambda p: AtLeastAtMost(p, 2, 4)), ("* 2", lambda p: p * 2)):
        try:
            out = q(d)
        except CannotBeRepeatedException:
            continue
        violations += 1
        print(f"VIOLATION: {desc} (pattern {d.get_pattern()!r}) accepted by {qdesc}: {out.get_pattern()!r}")

if violations:
    sys.exit(1)
print("ok: every direct assertion instance was refused repetition")
sys.exit(0)
