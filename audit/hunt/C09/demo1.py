"""C09 demo 1: an assertion-free expression built only from literals, Optional and concatenation is
refused repetition, because the text "\\(?=" (optional literal '(' followed by literal '=') is mistaken
for a positive lookahead "(?=...)" by the regex-based type inference.

Exits 1 on the defective code, 0 once repaired.
"""
import sys
import warnings
warnings.simplefilter("ignore")

from pregex.core.pre import Pregex
from pregex.core.quantifiers import Optional, OneOrMore, Indefinite, Exactly, AtLeast, AtMost, AtLeastAtMost
from pregex.core.classes import AnyDigit
from pregex.core.groups import Capture
from pregex.core.operators import Either
from pregex.core.exceptions import CannotBeRepeatedException

# None of these operands contains an anchor or a lookaround of any kind.
operands = {
    "Optional('(') + '=)'": Optional('(') + '=)',
    "Optional('(') + '=' + AnyDigit() + ')'": Optional('(') + '=' + AnyDigit() + ')',
    "Optional('(') + '=' + Capture('a')": Optional('(') + '=' + Capture('a'),
    "Optional('(') + '=' + Either('a', 'b')": Optional('(') + '=' + Either('a', 'b'),
    "Pregex('x') + AtMost('(', 1) + '=y)'": Pregex('x') + AtMost('(', 1) + '=y)',
}
quantifiers = {
    "OneOrMore(p)": lambda p: OneOrMore(p),
    "Indefinite(p)": lambda p: Indefinite(p),
    "Exactly(p, 2)": lambda p: Exactly(p, 2),
    "AtLeast(p, 2)": lambda p: AtLeast(p, 2),
    "AtMost(p, 3)": lambda p: AtMost(p, 3),
    "AtLeastAtMost(p, 1, 3)": lambda p: AtLeastAtMost(p, 1, 3),
    "p.one_or_more()": lambda p: p.one_or_more(),
    "p * 2": lambda p: p * 2,
}

violations = 0
for desc, p in operands.items():
    for qdesc, q in quantifiers.items():
        try:
            q(p)
        except CannotBeRepeatedException as ex:
            violations += 1
            print(f"VIOLATION: p = {desc}  (pattern {p.get_pattern()!r}, no anchor / lookaround inside); "
                  f"{qdesc} raised CannotBeRepeatedException: {ex}")

if violations:
    print(f"{violations} assertion-free operand/quantifier combinations were refused")
    sys.exit(1)
print("ok: all assertion-free operands are repeatable")
sys.exit(0)
