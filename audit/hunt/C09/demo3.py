r"""C09 demo 3: the class-simplification regex in __infer_type  (?<!\\)\[.+?(?<!\\)\]  ends a negated class
at the first ']' - but in "[^])]" / "[^]|]" the first ']' is a member of the class.  The rest of the class
(')' or '|') leaks out as if it were pattern syntax, so

 * direct FollowedBy / MatchAtStart / MatchAtEnd instances are ACCEPTED by repeating quantifiers, and
 * an assertion-free pattern is REFUSED (the leaked text looks like "(?=...)").

All operands are valid regular expressions wrapped with escape=False.
Exits 1 on the defective code, 0 once repaired.
"""
import re
import sys
import warnings
warnings.simplefilter("ignore")

from pregex.core.pre import Pregex
from pregex.core.assertions import MatchAtStart, MatchAtEnd, FollowedBy
from pregex.core.quantifiers import OneOrMore
from pregex.core.exceptions import CannotBeRepeatedException

R = lambda s: Pregex(s, escape=False)
violations = 0

direct = {
    "FollowedBy('', Pregex('[^])]', escape=False))": FollowedBy('', R('[^])]')),
    "MatchAtStart(Pregex('[^])]|x', escape=False))": MatchAtStart(R('[^])]|x')),
    "MatchAtEnd(Pregex('[^])]|x', escape=False))": MatchAtEnd(R('[^])]|x')),
}
for desc, d in direct.items():
    re.compile(str(d))
    try:
        out = OneOrMore(d)
    except CannotBeRepeatedException:
        continue
    violations += 1
    print(f"VIOLATION: direct assertion {desc} (pattern {d.get_pattern()!r}) accepted by OneOrMore: {out.get_pattern()!r}")

free = R('(a)[^](?=]b(c)')  # group, class of everything but  ] ( ? =  , 'b', group: no assertion at all
re.compile(str(free))
try:
    OneOrMore(free)
except CannotBeRepeatedException as ex:
    violations += 1
    print(f"VIOLATION: assertion-free Pregex('(a)[^](?=]b(c)', escape=False) refused by OneOrMore: {ex}")

if violations:
    sys.exit(1)
print("ok")
sys.exit(0)
