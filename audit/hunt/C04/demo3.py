"""C04 / finding 3: a bound that passes the "is an integer" check but whose format() is not its
decimal value (any `class X(int, Enum)` member on Python >= 3.12, or an int subclass with its own
__format__) is spliced into the pattern as text: Exactly('a', Count.THREE) -> 'a{Count.THREE}',
which is a valid regex for the literal text "a{Count.THREE}" and matches no repetition count."""
import enum, sys, warnings
warnings.simplefilter("ignore")
from pregex.core.pre import Pregex
from pregex.core.quantifiers import Exactly, AtLeast, AtMost, AtLeastAtMost
from pregex.core.exceptions import InvalidArgumentTypeException, InvalidArgumentValueException

class Count(int, enum.Enum):
    TWO = 2
    THREE = 3

class Verbose(int):
    def __format__(self, spec):
        return "three"

bad = 0
p = Pregex("a")
for three, two in ((Count.THREE, Count.TWO), (Verbose(3), 2)):
    assert isinstance(three, int) and not isinstance(three, bool) and three == 3
    specs = {
        "Exactly('a', n)": (lambda: Exactly("a", three), 3, 3),
        "p.exactly(n)": (lambda: p.exactly(three), 3, 3),
        "p * n": (lambda: p * three, 3, 3),
        "n * p": (lambda: three * p, 3, 3),
        "AtLeast('a', n)": (lambda: AtLeast("a", three), 3, 99),
        "AtMost('a', n)": (lambda: AtMost("a", three), 0, 3),
        "AtLeastAtMost('a', 2, n)": (lambda: AtLeastAtMost("a", two, three), 2, 3),
        "p.at_least_at_most(n, n)": (lambda: p.at_least_at_most(three, three), 3, 3),
    }
    for name, (f, lo, hi) in specs.items():
        try:
            q = f()
        except (InvalidArgumentTypeException, InvalidArgumentValueException):
            continue        # rejecting such a bound with the documented exception would be fine
        wrong = [k for k in range(0, 7) if q.is_exact_match("a" * k) != (lo <= k <= hi)]
        if wrong:
            print("VIOLATION  %-26s n=%r (int, ==3) -> pattern %r ; wrong for k in %s ; matches the literal text %r: %s"
                  % (name, three, q.get_pattern(), wrong, q.get_pattern(), q.is_exact_match(q.get_pattern())))
            bad += 1
print("violations:", bad)
sys.exit(1 if bad else 0)
