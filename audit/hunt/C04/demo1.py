"""C04 / finding 1: a repeatable operand is refused by every repeating quantifier
(CannotBeRepeatedException) because the type inference sees '(?=' somewhere inside the
pattern and a ')' at its very end and takes the whole operand for a look-ahead assertion."""
import re, sys, warnings
warnings.simplefilter("ignore")
from pregex.core.pre import Pregex
from pregex.core.assertions import FollowedBy, NotFollowedBy
from pregex.core.operators import Either
from pregex.core.classes import AnyFrom
from pregex.core.quantifiers import Exactly, AtLeastAtMost, OneOrMore, Indefinite, AtLeast, AtMost
from pregex.core.exceptions import CannotBeRepeatedException

FLAGS = re.M | re.S
bad = 0

def check(desc, operand, witness):
    """`witness` is one full match of `operand`; k copies of it are k back-to-back repetitions."""
    global bad
    s = operand.get_pattern()
    assert operand.is_exact_match(witness), (s, witness)
    # Python's re has no problem repeating the operand:
    assert re.fullmatch("(?:%s){2}" % s, witness * 2, FLAGS), s
    spellings = {
        "Exactly(op, 2)": lambda: Exactly(operand, 2),
        "op.exactly(2)": lambda: operand.exactly(2),
        "op * 2": lambda: operand * 2,
        "2 * op": lambda: 2 * operand,
        "AtLeastAtMost(op, 2, 2)": lambda: AtLeastAtMost(operand, 2, 2),
    }
    for name, f in spellings.items():
        try:
            q = f()
        except CannotBeRepeatedException as e:
            print("VIOLATION  %-28s operand %-22r (%s): %s: %s" % (name, s, desc, type(e).__name__, e))
            bad += 1
            continue
        for k in range(0, 5):
            got = q.is_exact_match(witness * k)
            if got != (k == 2):
                print("VIOLATION  %-28s operand %r: %d repetitions -> match=%s" % (name, s, k, got))
                bad += 1
    ranges = {
        "OneOrMore(op)": (lambda: OneOrMore(operand), 1, 99),
        "Indefinite(op, False)": (lambda: Indefinite(operand, False), 0, 99),
        "AtLeast(op, 2)": (lambda: AtLeast(operand, 2), 2, 99),
        "AtMost(op, 3)": (lambda: AtMost(operand, 3), 0, 3),
        "op.at_least_at_most(1, 3)": (lambda: operand.at_least_at_most(1, 3), 1, 3),
    }
    for name, (f, lo, hi) in ranges.items():
        try:
            q = f()
        except CannotBeRepeatedException as e:
            print("VIOLATION  %-28s operand %-22r (%s): %s: %s" % (name, s, desc, type(e).__name__, e))
            bad += 1
            continue
        for k in range(0, 6):
            got = q.is_exact_match(witness * k)
            if got != (lo <= k <= hi):
                print("VIOLATION  %-28s operand %r: %d repetitions -> match=%s" % (name, s, k, got))
                bad += 1

# control: the very same language, spelled with a class at the end instead of a group - accepted.
control = FollowedBy("a", "b") + AnyFrom("b", "c")           # a(?=b)[bc]
check("control, must pass", control, "ab")
assert bad == 0, "control operand failed - demo is broken"

# 1. 'a' that is followed by 'b', then 'b' or 'c'  ->  a(?=b)(?:b|c)
check("look-ahead in the middle, group at the end", FollowedBy("a", "b") + Either("b", "c"), "ab")
# 2. x, then a-followed-by-b, then a non-capturing group      ->  xa(?=b)(?:bc)
check("look-ahead in the middle, group at the end", Pregex("x") + FollowedBy("a", "b") + Pregex("bc").group(), "xabc")
# 3. negative look-ahead (documented as repeatable) whose assertion contains a look-ahead -> a(?!b(?=c))
check("negative look-ahead containing a look-ahead", NotFollowedBy("a", FollowedBy("b", "c")), "a")

print("violations:", bad)
sys.exit(1 if bad else 0)
