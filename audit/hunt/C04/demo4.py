"""C04 / finding 4 (boundary value): integer bounds >= 4294967295 are accepted and produce a
pattern that cannot be used - every matching call dies with OverflowError from `re`
("the repetition number is too large") instead of matching the k that are in range, and
instead of the bound being rejected with a documented exception."""
import sys, warnings
warnings.simplefilter("ignore")
from pregex.core.pre import Pregex
from pregex.core.quantifiers import AtMost, AtLeastAtMost, AtLeast, Exactly
from pregex.core.exceptions import InvalidArgumentTypeException, InvalidArgumentValueException

bad = 0
BIG = 2 ** 32 - 1
ok = AtMost("a", BIG - 1)
assert ok.is_exact_match("aaa")                      # one less works
specs = {
    "AtMost('a', 2**32-1)": (lambda: AtMost("a", BIG), True),
    "AtLeastAtMost('a', 1, 2**32)": (lambda: AtLeastAtMost("a", 1, BIG + 1), True),
    "Pregex('a').at_most(10**30)": (lambda: Pregex("a").at_most(10 ** 30), True),
    "AtLeast('a', 2**32-1)": (lambda: AtLeast("a", BIG), False),
    "Exactly('a', 2**32)": (lambda: Exactly("a", BIG + 1), False),
}
for name, (f, expected) in specs.items():
    try:
        q = f()
    except (InvalidArgumentTypeException, InvalidArgumentValueException):
        continue            # rejecting the bound up front with a documented exception would be fine
    try:
        got = q.is_exact_match("aaa")                # 3 repetitions
    except Exception as e:
        print("VIOLATION  %-30s -> pattern %r accepted, but matching 'aaa' raises %s: %s" % (name, q.get_pattern(), type(e).__name__, e))
        bad += 1
        continue
    if got != expected:
        print("VIOLATION  %-30s -> pattern %r : 3 repetitions -> %s" % (name, q.get_pattern(), got))
        bad += 1
print("violations:", bad)
sys.exit(1 if bad else 0)
