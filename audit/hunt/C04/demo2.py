"""C04 / finding 2: a raw (escape=False) operand made of a group followed by more pattern is
taken for one single group when a character class that starts with ']' (e.g. [^](]) hides a
parenthesis from the group scanner - the quantifier is then appended without wrapping and
repeats only the tail of the operand."""
import re, sys, warnings
warnings.simplefilter("ignore")
from pregex.core.pre import Pregex
from pregex.core.quantifiers import Exactly, AtLeastAtMost, Optional, OneOrMore

FLAGS = re.M | re.S
bad = 0
cases = [
    # operand                       one witness
    (r"([^](])\)",                  "a)"),     # group "any char but ] and (", then a literal ')'
    (r"([^](])x([^])])",            "axb"),    # group, x, group
]
for raw, w in cases:
    re.compile(raw)                                           # a valid regular expression
    op = Pregex(raw, escape=False)
    assert op.is_exact_match(w)
    specs = {
        "Exactly(op, 2)": (Exactly(op, 2), 2, 2),
        "op * 3": (op * 3, 3, 3),
        "AtLeastAtMost(op, 2, 3)": (AtLeastAtMost(op, 2, 3), 2, 3),
        "Optional(op)": (Optional(op), 0, 1),
        "OneOrMore(op)": (OneOrMore(op), 1, 99),
    }
    for name, (q, lo, hi) in specs.items():
        for k in range(0, 6):
            got = q.is_exact_match(w * k)
            if got != (lo <= k <= hi):
                print("VIOLATION  %-24s operand %r -> %r : %d back-to-back repetitions (%r) -> match=%s, expected %s"
                      % (name, raw, q.get_pattern(), k, w * k, got, lo <= k <= hi))
                bad += 1
    # and it matches things that are not repetitions of the operand at all
    q = Exactly(op, 2)
    junk = w + w[-1]
    if q.is_exact_match(junk) and not re.fullmatch("(?:%s){2}" % raw, junk, FLAGS):
        print("VIOLATION  Exactly(op, 2)           operand %r -> %r matches %r, which is not two repetitions" % (raw, q.get_pattern(), junk))
        bad += 1
print("violations:", bad)
sys.exit(1 if bad else 0)
