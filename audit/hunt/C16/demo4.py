"""C16 demo 4: bool bounds.  min_decimal/max_decimal reject bools with
InvalidArgumentTypeException, start/end do not: the bool is turned into the text 'True' /
'False' and a nonsense pattern is built (or an undocumented InvalidRangeException escapes).
A repaired library either raises InvalidArgumentTypeException or treats the bool as 0/1.
Exits 1 while the defect is present."""
import sys, warnings
warnings.simplefilter("ignore")
from pregex.meta.essentials import Decimal, PositiveDecimal, NegativeDecimal, UnsignedDecimal
from pregex.core.exceptions import InvalidArgumentTypeException

text = "0.5 1.5 2.5 7.5 12.25 .5"
bad = []
for cls in (Decimal, PositiveDecimal, NegativeDecimal, UnsignedDecimal):
    t = text if cls is not NegativeDecimal else "-0.5 -1.5 -2.5 -7.5 -12.25 -.5"
    for kw in ({"start": True, "end": 5}, {"start": False, "end": 5}, {"start": 0, "end": True}, {"start": 0, "end": False}):
        ref = cls(**{k: int(v) for k, v in kw.items()}).get_matches(t)
        try:
            got = cls(**kw).get_matches(t)
        except InvalidArgumentTypeException:
            continue                      # acceptable: documented exception
        except Exception as e:            # undocumented exception
            bad.append((cls.__name__, kw, f"raised {type(e).__name__}: {e}"))
            continue
        if got != ref:
            bad.append((cls.__name__, kw, f"matches {got}; with int bounds: {ref}"))
for name, kw, what in bad:
    print(f"{name}({kw}): {what}")
if bad:
    print("VIOLATION: bool bounds neither raise InvalidArgumentTypeException nor behave as 0/1")
    sys.exit(1)
print("ok")
