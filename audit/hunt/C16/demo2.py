"""C16 demo 2: Decimal(include_sign=True) applies the documented sign rules only to the
alternative that has an integer part.  Without an integer part the sign is dropped
("1.1+.2" -> ".2") or accepted glued to a word character ("a+.5" -> "+.5").
Exits 1 while the defect is present."""
import sys, warnings
warnings.simplefilter("ignore")
from pregex.meta.essentials import Decimal

p = Decimal(include_sign=True)
bad = []

# the class documentation: in "1.1+2.2" only "1.1" is matched, because "+2.2" is a decimal
# number as a whole and cannot match when a digit directly precedes it.
assert p.get_matches("1.1+2.2") == ["1.1"]
r = p.get_matches("1.1+.2")
if r != ["1.1"]:
    bad.append(("1.1+.2", r, "['1.1']  (as for '1.1+2.2' / '1.1+0.2')"))
r = p.get_matches("1.1-.2")
if r != ["1.1"]:
    bad.append(("1.1-.2", r, "['1.1']"))

# a sign glued to a word character: refused with an integer part, accepted without
for prefix in ("a+", "a-", "_+"):
    with_int = p.get_matches(prefix + "0.5")
    without = p.get_matches(prefix + ".5")
    if without != [m.replace("0.5", ".5") for m in with_int]:
        bad.append((prefix + ".5", without, f"{with_int} as for {prefix + '0.5'!r}"))

# lower-confidence companion symptom (same guard, no sign involved): reported, not counted
q = Decimal()
print(f"note: Decimal().get_matches('a.5') = {q.get_matches('a.5')}, get_matches('a0.5') = {q.get_matches('a0.5')}")

for text, got, want in bad:
    print(f"Decimal(include_sign=True).get_matches({text!r}) = {got}, expected {want}")
if bad:
    print("VIOLATION: sign rules are not applied to numerals without an integer part")
    sys.exit(1)
print("ok")
