"""C16 demo 1: PositiveDecimal matches the fraction of a *negative* numeral that has no
integer part ("-.5" -> ".5"), although it refuses the same numeral written with an integer
part ("-0.5" -> nothing).  Exits 1 while the defect is present."""
import sys, warnings
warnings.simplefilter("ignore")
from pregex.meta.essentials import PositiveDecimal, PositiveInteger

bad = []
for kw in ({}, {"start": 0, "end": 9}, {"start": 0, "end": 0, "min_decimal": 2, "max_decimal": 2}):
    p = PositiveDecimal(**kw)
    for prefix in ("-", "x -", "+-", "--", "(-", "a-", "1-", "a+", "1+"):
        with_int = p.get_matches(prefix + "0.25")       # integer part present
        without = p.get_matches(prefix + ".25")         # same numeral, no integer part
        expected = [m.replace("0.25", ".25") for m in with_int]
        if without != expected:
            bad.append((kw, prefix + ".25", without, prefix + "0.25", with_int))

# reference: the corresponding Integer pattern refuses a numeral preceded by '-'
assert PositiveInteger(0, 9).get_matches("-5") == []

shown = set()
for kw, t1, r1, t0, r0 in bad:
    if t1 in shown:
        continue          # same outcome under the other parameter tuples
    shown.add(t1)
    print(f"PositiveDecimal({kw}).get_matches({t1!r}) = {r1}   but get_matches({t0!r}) = {r0}")
if bad:
    print(f"({len(bad)} violating (parameters, text) pairs in total)")
if bad:
    print("VIOLATION: a numeral preceded by '-' (or by a sign glued to a word character/digit) is "
          "accepted by PositiveDecimal when the integer part is missing")
    sys.exit(1)
print("ok")
