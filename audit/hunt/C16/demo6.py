"""C16 demo 6: with is_extensible=True, PositiveDecimal and Decimal(include_sign=True) make
the sign mandatory when the numeral has an integer part but optional when it has none:
" 1.5" is never matched, " .5" is.  Whatever the intended sign rule is, it must be the same
for both alternatives.  Exits 1 while the defect is present."""
import sys, warnings
warnings.simplefilter("ignore")
from pregex.meta.essentials import Decimal, PositiveDecimal

bad = []
for name, p in (("PositiveDecimal(is_extensible=True)", PositiveDecimal(is_extensible=True)),
                ("Decimal(include_sign=True, is_extensible=True)", Decimal(include_sign=True, is_extensible=True))):
    for prefix in (" ", "x", "("):
        with_int = p.get_matches(prefix + "0.5")
        without = p.get_matches(prefix + ".5")
        if without != [m.replace("0.5", ".5") for m in with_int]:
            bad.append((name, prefix + "0.5", with_int, prefix + ".5", without))
for name, t0, r0, t1, r1 in bad:
    print(f"{name}: get_matches({t0!r}) = {r0}  but get_matches({t1!r}) = {r1}")
if bad:
    print("VIOLATION: unsigned numerals are refused with an integer part and accepted without one")
    sys.exit(1)
print("ok")
