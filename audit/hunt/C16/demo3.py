"""C16 demo 3: non-ASCII decimal digits slip through the '[0-9]' -> '\\d' shorthand.
A numeral with a (non-ASCII) leading zero whose value is outside [start, end] is an exact
match.  Exits 1 while the defect is present."""
import sys, warnings
warnings.simplefilter("ignore")
from pregex.meta.essentials import Decimal, PositiveDecimal, NegativeDecimal, UnsignedDecimal

AZ, A3 = "٠", "٣"     # ARABIC-INDIC DIGIT ZERO / THREE
bad = []
cases = [
    (Decimal(5, 120), AZ + A3 + ".5", "value 3 is below start=5 and the numeral has a leading zero"),
    (Decimal(0, 999), AZ + "5.5", "leading zero ('05.5' is refused)"),
    (UnsignedDecimal(10, 99), "1" + A3 + ".25", None),
    (PositiveDecimal(5, 120), "+" + AZ + A3 + ".5", "value 3 < 5, leading zero"),
    (NegativeDecimal(5, 120), "-" + AZ + A3 + ".5", "value 3 < 5, leading zero"),
    (Decimal(0, 9, max_decimal=1), "1." + A3, None),
]
for p, text, why in cases:
    got = p.is_exact_match(text)
    if why is None:
        # only a violation if one reads "digit" as ASCII digit; reported, not counted
        print(f"note: {type(p).__name__}.is_exact_match({text!r}) = {got}")
        continue
    if got:
        bad.append((type(p).__name__, text, why))
assert not Decimal(0, 999).is_exact_match("05.5")
assert not Decimal(5, 120).is_exact_match("03.5")
for name, text, why in bad:
    print(f"{name}: is_exact_match({text!r}) = True  -- {why}")
if bad:
    print("VIOLATION: integer part outside the range / with a leading zero is accepted")
    sys.exit(1)
print("ok")
