"""C16 demo 5: with is_extensible=True no numeral that has an integer part can match at the
very start of the text (so it is never an exact match), while a numeral without an integer
part can.  The documentation only promises that the pattern "must not be preceded by any
numeric characters".  Exits 1 while the defect is present."""
import sys, warnings
warnings.simplefilter("ignore")
from pregex.meta.essentials import Decimal, NegativeDecimal, UnsignedDecimal

bad = []
for p, text in ((Decimal(is_extensible=True), "1.5"),
                (Decimal(0, 9, is_extensible=True), "0.5"),
                (UnsignedDecimal(is_extensible=True), "1.5"),
                (Decimal(3, 40, min_decimal=2, max_decimal=2, is_extensible=True), "12.25")):
    em, gm = p.is_exact_match(text), p.get_matches(text)
    if not em or gm != [text]:
        bad.append((type(p).__name__, text, em, gm, p.get_matches(" " + text)))
# control: the same objects do match without integer part / after any non-digit
assert Decimal(is_extensible=True).is_exact_match(".5")
for name, text, em, gm, ctl in bad:
    print(f"{name}(is_extensible=True): is_exact_match({text!r}) = {em}, get_matches({text!r}) = {gm}, "
          f"get_matches({' ' + text!r}) = {ctl}")
if bad:
    print("VIOLATION: a valid numeral at the start of the text is not matched in extensible mode")
    sys.exit(1)
print("ok")
