"""C19 demo 1: non-ASCII (Unicode) decimal digits are accepted in some positions of a date.

Date('dd/mm/yyyy') must exactly-match only dd = 01-31, mm = 01-12, yyyy = four digits, in the
format's order.  The table entries built from AnyDigit() compile to the regex class \\d, which in a
str pattern matches every Unicode decimal digit, while the entries built from AnyDigit() - '0' and
the literal alternatives are ASCII-only.  So '1٣/01/2021' (day = '1' + ARABIC-INDIC THREE) is
accepted although it is none of 01..31, whereas '٠١/01/2021' is rejected.
Exits 1 while the defect is present, 0 once it is repaired.
"""
import sys, warnings
warnings.simplefilter("ignore")
from pregex.meta.essentials import Date

cases = [
    ("dd/mm/yyyy", "1٣/01/2021"),              # day '1٣' is not one of 01..31
    ("dd/mm/yyyy", "2９/12/2021"),              # day '2９' (fullwidth nine)
    ("dd/mm/yyyy", "01/01/٢٠٢١"),  # year of Arabic-Indic digits
    ("d-m-yy", "1-2-१२"),                 # Devanagari digits as yy
    ("yyyy-mm-dd", "20٢١-01-1٩"),
]
bad = []
for ext in (False, True):
    for fmt, text in cases:
        if Date(fmt, is_extensible=ext).is_exact_match(text):
            bad.append((fmt, ext, text))
    if Date(None, is_extensible=ext).is_exact_match("1٣/01/2021"):
        bad.append((None, ext, "1٣/01/2021"))

# for contrast: the same kind of digit in an ASCII-only position is (rightly) rejected
contrast = Date("dd/mm/yyyy").is_exact_match("٠١/01/2021")

for fmt, ext, text in bad:
    print(f"VIOLATION: Date({fmt!r}, is_extensible={ext}).is_exact_match({text!r}) -> True "
          f"(ascii() of text: {ascii(text)}); expected False")
print("contrast: Date('dd/mm/yyyy').is_exact_match('\\u0660\\u0661/01/2021') ->", contrast)
sys.exit(1 if bad else 0)
