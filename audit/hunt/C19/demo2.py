"""C19 demo 2: the empty selection of formats is accepted and yields a pattern that matches ''.

The property quantifies over all subsets of the 48 documented formats.  For the empty subset no
text conforms to "one of the selected formats", so nothing may exactly-match (or the empty list
must be refused with InvalidArgumentValueException).  Instead Date([], is_extensible=True) is
built from Either() with zero alternatives, whose pattern is '', and it exactly-matches ''.
(With is_extensible=False the pattern is '\\b\\b', which get_matches() finds - as '' - at every
word boundary of any text.)
Exits 1 while the defect is present, 0 once it is repaired.
"""
import sys, warnings
warnings.simplefilter("ignore")
from pregex.meta.essentials import Date
from pregex.core.exceptions import InvalidArgumentValueException

bad = []
try:
    p = Date([], is_extensible=True)
except InvalidArgumentValueException:
    p = None
if p is not None:
    if p.is_exact_match(""):
        bad.append(f"Date([], is_extensible=True) has pattern {p.get_pattern()!r} and "
                   f"is_exact_match('') -> True; '' conforms to no date format")
try:
    q = Date([], is_extensible=False)
except InvalidArgumentValueException:
    q = None
if q is not None:
    m = q.get_matches("1/2/21")
    if m:
        bad.append(f"Date([]) has pattern {q.get_pattern()!r} and get_matches('1/2/21') -> {m!r}; "
                   f"expected no matches")
for b in bad:
    print("VIOLATION:", b)
sys.exit(1 if bad else 0)
