"""C18 demo 2: the non-extensible IPv6() guard only looks at decimal digits and ':', so an address
that begins/ends with '::' is still matched when it is glued to further *hex* digits a-f/A-F -
although the very same text with decimal digits in that place is (correctly) not matched."""
import sys
from pregex.meta.essentials import IPv6

p = IPv6()
# (text, counterpart with a decimal digit in place of the hex letter)
pairs = [
    ("abcde::1", "12345::1"),   # 'abcde' / '12345' are not groups (5 digits); '::1' is glued to them
    ("1::abcde", "1::12345"),
    (":a::1",    ":1::1"),
    ("1::a:",    "1::1:"),
    ("abcde::",  "12345::"),
]
bad = 0
for hex_text, dec_text in pairs:
    mh, md = p.get_matches(hex_text), p.get_matches(dec_text)
    print(f"{hex_text!r:12} -> {mh!r:10}   {dec_text!r:12} -> {md!r}")
    if mh:            # neither text is an address; every sub-address is glued to a further (hex) digit or colon
        bad += 1
        print(f"  VIOLATION: {mh} matched inside {hex_text!r} although glued to a hex digit")
sys.exit(1 if bad else 0)
