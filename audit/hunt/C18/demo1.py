"""C18 demo 1: non-ASCII decimal digits are accepted by IPv4() / IPv6() (\\d is Unicode-aware),
while ipaddress (the property's oracle) rejects them."""
import ipaddress, sys
from pregex.meta.essentials import IPv4, IPv6

def ref(cls, s):
    try:
        cls(s); return True
    except ValueError:
        return False

cases = [
    (IPv4(), ipaddress.IPv4Address, "١.٢.٣.٤"),      # ARABIC-INDIC 1.2.3.4
    (IPv4(), ipaddress.IPv4Address, "1٩٩.2.3.4"),               # '1' + two Arabic-Indic nines
    (IPv4(is_extensible=True), ipaddress.IPv4Address, "1.2.3.４"),    # FULLWIDTH DIGIT FOUR
    (IPv6(), ipaddress.IPv6Address, "٣::1"),
    (IPv6(), ipaddress.IPv6Address, "1:2:3:4:5:6:7:२"),              # DEVANAGARI DIGIT TWO
    (IPv6(is_extensible=True), ipaddress.IPv6Address, "::１f"),
]
bad = 0
for p, cls, s in cases:
    got, want = p.is_exact_match(s), ref(cls, s)
    if got != want:
        bad += 1
        print(f"VIOLATION {type(p).__name__}: is_exact_match({s!r}) = {got}, ipaddress says {want}")
sys.exit(1 if bad else 0)
