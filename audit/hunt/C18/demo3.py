"""C18 demo 3 (literal reading of the last sentence of the property): IPv6() matches an address glued
to a dot, and IPv4() one glued to a colon."""
import sys
from pregex.meta.essentials import IPv4, IPv6

bad = 0
for p, text in [(IPv6(), "::ffff:1.2.3.4"), (IPv6(), "1::2.3"), (IPv6(), "1.2.3.4::1"),
                (IPv4(), "1.2.3.4::1"), (IPv4(), "1.2.3.4:5.6.7.8")]:
    for m, a, b in p.get_matches_and_pos(text):
        before = text[a-1] if a else ""
        after = text[b] if b < len(text) else ""
        if (before and before in ".:") or (after and after in ".:"):
            bad += 1
            print(f"VIOLATION {type(p).__name__}: {m!r} matched in {text!r} glued to {before+after!r}")
sys.exit(1 if bad else 0)
