"""C10 finding 2: an assertion pattern that mentions a group defined outside of itself (Backreference,
Conditional) switches the width check off altogether.  The check compiles "(?<=A)" in isolation; the
unknown reference makes re fail with "invalid group reference" / "unknown group name" *before* it looks at
the width, and every error other than the fixed-width one is read as "fixed width".  So assertion patterns
with an optional / variably repeated part, or with alternatives of different length, are accepted and the
failure only shows up later inside re.compile."""
import re, sys, warnings
warnings.simplefilter("ignore")
from pregex.core.pre import Pregex
from pregex.core.assertions import PrecededBy, NotPrecededBy, EnclosedBy
from pregex.core.groups import Capture, Backreference, Conditional
from pregex.core.quantifiers import Optional, OneOrMore
from pregex.core.exceptions import NonFixedWidthPatternException

FLAGS = re.MULTILINE | re.DOTALL
bad = 0

def must_reject(label, build_assertion, prefix):
    """build_assertion() has no single fixed width -> NonFixedWidthPatternException expected."""
    global bad
    for name, ctor in (("PrecededBy", PrecededBy), ("NotPrecededBy", NotPrecededBy), ("EnclosedBy", EnclosedBy)):
        try:
            res = ctor("x", build_assertion())
        except NonFixedWidthPatternException:
            print(f"ok        {name}('x', {label}): rejected")
            continue
        full = prefix + res
        try:
            re.compile(str(full), FLAGS)
            outcome = "and (unexpectedly) compiles"
        except re.error as e:
            outcome = f"re.compile fails later: {e}"
        print(f"VIOLATION {name}('x', {label}): accepted -> {str(full)!r}; {outcome}")
        bad += 1

# control: the same variable parts without a reference are rejected
must_reject("'b' + Optional('a')", lambda: Pregex("b") + Optional("a"), Capture("q"))
# a part is optional (a?)
must_reject("Backreference(1) + Optional('a')", lambda: Backreference(1) + Optional("a"), Capture("q"))
# a part is variably repeated (a+)
must_reject("Backreference('g') + OneOrMore('a')", lambda: Backreference("g") + OneOrMore("a"), Capture("q", name="g"))
# alternatives differ in length: a | bc
must_reject("Conditional('g', 'a', 'bc')", lambda: Conditional("g", "a", "bc"), Capture("q", name="g"))
# one branch only: a | <empty>
must_reject("Conditional('g', 'a')", lambda: Conditional("g", "a"), Capture("q", name="g"))
sys.exit(1 if bad else 0)
