"""C10 finding 1: EnclosedBy / NotEnclosedBy (and enclosed_by / not_enclosed_by) accept a fixed-width
assertion pattern that contains a *named* capturing group, but the pattern they yield does not compile,
because the assertion text is pasted twice ((?<=A)M(?=A)) and the group name is thereby defined twice."""
import re, sys, warnings
warnings.simplefilter("ignore")
from pregex.core.pre import Pregex
from pregex.core.assertions import EnclosedBy, NotEnclosedBy, PrecededBy
from pregex.core.groups import Capture
from pregex.core.classes import AnyDigit

FLAGS = re.MULTILINE | re.DOTALL
bad = 0

def check(label, build):
    global bad
    try:
        res = build()
    except Exception as e:                      # a fixed-width assertion must be accepted
        print(f"VIOLATION {label}: constructor raised {type(e).__name__}: {e}")
        bad += 1
        return
    try:
        re.compile(str(res), FLAGS)
        res.compile()
        print(f"ok        {label}: {str(res)!r} compiles")
    except re.error as e:
        print(f"VIOLATION {label}: accepted, result {str(res)!r} does not compile: {e}")
        bad += 1

quote = lambda: Capture("'", name="q")          # one character wide, fixed
# sanity: the very same assertion is fine in a plain lookbehind
check("PrecededBy('x', Capture(\"'\", name='q'))", lambda: PrecededBy("x", quote()))
check("EnclosedBy('x', Capture(\"'\", name='q'))", lambda: EnclosedBy("x", quote()))
check("NotEnclosedBy('x', Capture(\"'\", name='q'))", lambda: NotEnclosedBy("x", quote()))
check("Pregex('x').enclosed_by(Capture(2*AnyDigit(), name='dd'))",
      lambda: Pregex("x").enclosed_by(Capture(2 * AnyDigit(), name="dd")))
check("Pregex('x').not_enclosed_by(Capture(2*AnyDigit(), name='dd'))",
      lambda: Pregex("x").not_enclosed_by(Capture(2 * AnyDigit(), name="dd")))
sys.exit(1 if bad else 0)
