"""C10 finding 3 (boundary values): the width verdict is delegated to re, whose width arithmetic saturates
at 2**64 and whose lookbehind is limited to 2**32-1 characters.  re reports those cases with
"looks too much behind", which the library reads as "fixed width".
 (a) variable-width pattern ((a{N}){N}){2,3}, N = 2**32-2: min and max width both saturate, no
     NonFixedWidthPatternException, the result never compiles;
 (b) fixed-width pattern (a{65536}){65536} (width 2**32): accepted, the result never compiles."""
import re, sys, warnings
warnings.simplefilter("ignore")
from pregex.core.assertions import PrecededBy, NotPrecededBy
from pregex.core.quantifiers import Exactly, AtLeastAtMost
from pregex.core.exceptions import NonFixedWidthPatternException

FLAGS = re.MULTILINE | re.DOTALL
bad = 0
N = 2**32 - 2

def run(label, build, is_fixed):
    global bad
    for name, ctor in (("PrecededBy", PrecededBy), ("NotPrecededBy", NotPrecededBy)):
        try:
            res = ctor("x", build())
        except NonFixedWidthPatternException:
            if is_fixed:
                print(f"VIOLATION {name}('x', {label}): fixed width but rejected"); bad += 1
            else:
                print(f"ok        {name}('x', {label}): rejected")
            continue
        except Exception as e:
            print(f"note      {name}('x', {label}): {type(e).__name__}: {e}")
            continue
        try:
            re.compile(str(res), FLAGS)
            if is_fixed:
                print(f"ok        {name}('x', {label}): accepted and compiles")
                continue
            outcome = "and compiles"
        except re.error as e:
            outcome = f"re.compile of the result fails: {e}"
        if is_fixed:
            # informational only: re cannot express this lookbehind at all, so it is not counted for the exit code
            print(f"note      {name}('x', {label}): fixed width, accepted -> {str(res)!r}; {outcome}")
            continue
        print(f"VIOLATION {name}('x', {label}): NOT fixed width (repeated 2 or 3 times) but accepted -> {str(res)!r}; {outcome}")
        bad += 1

# control
run("AtLeastAtMost(Exactly(Exactly('a', 3), 3), 2, 3)", lambda: AtLeastAtMost(Exactly(Exactly("a", 3), 3), 2, 3), False)
run(f"AtLeastAtMost(Exactly(Exactly('a', {N}), {N}), 2, 3)", lambda: AtLeastAtMost(Exactly(Exactly("a", N), N), 2, 3), False)
run("Exactly(Exactly('a', 65536), 65536)", lambda: Exactly(Exactly("a", 65536), 65536), True)
sys.exit(1 if bad else 0)
