"""C17 demo 1: the digit alphabet '0-9' is silently rewritten to '\\d', which (the
library matches in Unicode mode, no re.ASCII) also accepts every non-ASCII decimal
digit.  Consequences:
  * Numeral(base) for base 10..16 accepts digits that Numeral(base) for base 2..9
    rejects, although the digit (value 3) is legal in all of them or in none;
  * Word / WordContains / WordStartsWith / WordEndsWith with is_global=False
    ("do not include foreign characters") match words made of foreign digits.
Exits 1 while the defect is present, 0 once it is repaired."""
import sys, warnings
warnings.simplefilter("ignore")
from pregex.meta.essentials import (Numeral, Word, WordContains,
                                    WordStartsWith, WordEndsWith)

DIGITS = "0123456789abcdef"
FOREIGN = ["٣",      # ARABIC-INDIC DIGIT THREE
           "３",      # FULLWIDTH DIGIT THREE
           "३"]      # DEVANAGARI DIGIT THREE
bad = []

# 1. Numeral: alphabet of base b must be DIGITS[:b] in either case - nothing else.
for base in range(2, 17):
    alphabet = set(DIGITS[:base]) | set(DIGITS[:base].upper())
    for ext in (False, True):
        p = Numeral(base, 1, 1, is_extensible=ext)
        for cp in list(range(0x0, 0x3000)) + [ord(c) for c in FOREIGN]:
            c = chr(cp)
            got, want = p.is_exact_match(c), c in alphabet
            if got != want and len(bad) < 400:
                bad.append(f"Numeral({base}, 1, 1, is_extensible={ext}).is_exact_match({c!r}) "
                           f"= {got}, expected {want}   pattern {p.get_pattern()}")

# the same digit, two neighbouring bases, opposite answers
a, b = Numeral(9).is_exact_match("٣"), Numeral(10).is_exact_match("٣")
if a != b:
    bad.append(f"Numeral(9).is_exact_match('\\u0663') = {a} but "
               f"Numeral(10).is_exact_match('\\u0663') = {b}")
m = Numeral(16).get_matches("id ٣f٣ end")
if m != []:
    bad.append(f"Numeral(16).get_matches('id \\u0663f\\u0663 end') = {m!r}, expected []")

# 2. is_global=False must not take foreign characters - it rejects foreign
#    letters, but takes foreign digits.
for txt in ("٣٣", "ab٣", "３a"):
    for name, p in [("Word(is_global=False)", Word(is_global=False)),
                    ("Word(2, 3, is_global=False)", Word(2, 3, is_global=False)),
                    ("WordContains('a', is_global=False)", WordContains("a", is_global=False)),
                    ("WordStartsWith('a', is_global=False)", WordStartsWith("a", is_global=False)),
                    ("WordEndsWith('a', is_global=False)", WordEndsWith("a", is_global=False))]:
        got = p.get_matches(txt)
        if got:
            bad.append(f"{name}.get_matches({txt!r}) = {got!r}, expected []   "
                       f"pattern {p.get_pattern()}")
# control: a foreign *letter* is refused by the very same objects
assert Word(is_global=False).get_matches("abé") == []

if bad:
    shown = bad[:12] + ([f"... {len(bad) - 24} more ..."] if len(bad) > 24 else []) + bad[-12:]
    print("\n".join(shown))
    print(f"VIOLATION: {len(bad)} wrong answers")
    sys.exit(1)
print("ok")
