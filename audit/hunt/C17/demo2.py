"""C17 demo 2: an empty string inside the affix list is honoured or ignored
depending on its POSITION in the list.  "At least one of the given strings" is a
set condition, so the order of the list must not matter; every word contains /
starts with / ends with '' (and WordContains('') alone does match every word).
Exits 1 while the defect is present, 0 once it is repaired."""
import sys, warnings
warnings.simplefilter("ignore")
from pregex.meta.essentials import WordContains, WordStartsWith, WordEndsWith

text = "ab cd xa"
bad = []
for cls in (WordContains, WordStartsWith, WordEndsWith):
    for ext in (False, True):
        for g in (True, False):
            first = cls(["", "a"], is_global=g, is_extensible=ext)
            last = cls(["a", ""], is_global=g, is_extensible=ext)
            # ignore empty matches, compare the words that are reported
            m_first = [m for m in first.get_matches(text) if m]
            m_last = [m for m in last.get_matches(text) if m]
            e_first, e_last = first.is_exact_match("cd"), last.is_exact_match("cd")
            if m_first != m_last or e_first != e_last:
                bad.append(
                    f"{cls.__name__}(['', 'a'], is_global={g}, is_extensible={ext}): pattern "
                    f"{first.get_pattern()!r}, words {m_first}, is_exact_match('cd')={e_first}\n"
                    f"{cls.__name__}(['a', ''], is_global={g}, is_extensible={ext}): pattern "
                    f"{last.get_pattern()!r}, words {m_last}, is_exact_match('cd')={e_last}")
if bad:
    print("\n".join(bad))
    print(f"VIOLATION: {len(bad)} configurations where the order of the affix list "
          f"changes the set of matched words")
    sys.exit(1)
print("ok")
