"""
C03 demo 6 (raw patterns): type inference reads a '[' that sits inside a
comment group "(?#...)" as the start of a character class.  Everything up to
the next ']' - including a top-level '|' - is folded into that "class", the
alternation goes undetected, and the pattern is inserted un-grouped where an
alternation must be grouped.  Inside Conditional this gives a third branch:
re.error "conditional backref with more than two branches" on first use.

Exits 1 while the defect is present.
"""
import re, sys, warnings
warnings.simplefilter("ignore")
from pregex.core.pre import Pregex
from pregex.core.groups import Capture, Conditional
import pregex.core.exceptions as ex

LIB = tuple(v for v in vars(ex).values() if isinstance(v, type) and issubclass(v, Exception))
F = re.M | re.S
bad = 0
PAIRS = [('(?#x)a|b[c]', '(?#x[)a|b[c]'), ('(?#see 1)ab|[cd]e', '(?#see [1)ab|[cd]e')]
for control, raw in PAIRS:                               # control: the same thing without the '[' in the comment
    re.compile(raw, F)                                   # a valid regex: comment, then an alternation
    for r in (control, raw):
        label = f"Capture('x', 'n') + Conditional('n', Pregex({r!r}, escape=False), 'z')"
        try:
            p = Capture('x', 'n') + Conditional('n', Pregex(r, escape=False), 'z')
        except LIB as e:
            print(f"ok    {label}: raised {type(e).__name__}")
            continue
        try:
            p.has_match("xa")
            re.compile(p.get_pattern(), F)
            print(f"ok    {label}\n      -> {p.get_pattern()!r}")
        except re.error as e:
            bad += 1
            print(f"FAIL  {label}\n      returned {p.get_pattern()!r}; first use raises re.error: {e}")
sys.exit(1 if bad else 0)
