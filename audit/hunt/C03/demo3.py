"""
C03 demo 3: integer arguments have no upper bound check.  A repetition count
of 2**32 - 1 or more is accepted by every quantifier (and by the meta classes
that forward to them); the returned Pregex cannot be compiled: re raises
OverflowError ("the repetition number is too large") on first use.  With an
int of more than 4300 digits the call itself dies with ValueError.

Exits 1 while the defect is present.
"""
import re, sys, warnings
warnings.simplefilter("ignore")
from pregex.core.pre import Pregex
from pregex.core.classes import AnyDigit
from pregex.core.quantifiers import Exactly, AtLeast, AtMost, AtLeastAtMost
from pregex.meta.essentials import Word, Numeral, Decimal, Integer
import pregex.core.exceptions as ex

LIB = tuple(v for v in vars(ex).values() if isinstance(v, type) and issubclass(v, Exception))
BIG = 2 ** 32
HUGE = 10 ** 4300

CASES = [
    ("Pregex('a').exactly(2**32 - 1)", lambda: Pregex('a').exactly(BIG - 1)),
    ("Pregex('a') * 2**32", lambda: Pregex('a') * BIG),
    ("Exactly(AnyDigit(), 2**32)", lambda: Exactly(AnyDigit(), BIG)),
    ("AtLeast('a', 2**32)", lambda: AtLeast('a', BIG)),
    ("AtMost('a', 2**32)", lambda: AtMost('a', BIG)),
    ("AtLeastAtMost('a', 1, 2**32)", lambda: AtLeastAtMost('a', 1, BIG)),
    ("Word(max_chars=2**32)", lambda: Word(max_chars=BIG)),
    ("Numeral(n_max=2**32)", lambda: Numeral(n_max=BIG)),
    ("Decimal(max_decimal=2**32)", lambda: Decimal(max_decimal=BIG)),
    ("Pregex('a').exactly(10**4300)", lambda: Pregex('a').exactly(HUGE)),
    ("Integer(0, 10**4300)", lambda: Integer(0, HUGE)),
]

bad = 0
for label, build in CASES:
    try:
        p = build()
    except LIB as e:
        print(f"ok    {label}: raised {type(e).__name__}")
        continue
    except Exception as e:
        bad += 1
        print(f"FAIL  {label}: the call raised {type(e).__name__}: {str(e)[:70]}")
        continue
    try:
        p.has_match("aaa")
        re.compile(p.get_pattern(), re.M | re.S)
        print(f"ok    {label}: {p.get_pattern()[:40]!r} is usable")
    except Exception as e:
        bad += 1
        print(f"FAIL  {label}\n      returned {p.get_pattern()[:60]!r}; first use raises {type(e).__name__}: {e}")
sys.exit(1 if bad else 0)
