"""
C03 demo 5 (raw patterns): a valid raw regular expression that starts with
global inline flags, e.g. Pregex('(?i)a', escape=False), is moved away from
position 0 by almost every pattern-building call (concat on the left, either,
group, capture, quantifiers, anchors, look-arounds).  Python >= 3.11 rejects
global flags that are not at the start, so the returned Pregex raises re.error
on first use.

Exits 1 while the defect is present.
"""
import re, sys, warnings
warnings.simplefilter("ignore")
from pregex.core.pre import Pregex
from pregex.core.groups import Capture, Group
from pregex.core.quantifiers import Optional
from pregex.core.assertions import MatchAtStart, FollowedBy
import pregex.core.exceptions as ex

LIB = tuple(v for v in vars(ex).values() if isinstance(v, type) and issubclass(v, Exception))
F = re.M | re.S
RAW = '(?i)a'
re.compile(RAW, F)                       # the leaf itself is a valid regex under the library's flags
leaf = lambda: Pregex(RAW, escape=False)

CASES = [
    ("'b' + leaf", lambda: 'b' + leaf()),
    ("Pregex('b').either(leaf)", lambda: Pregex('b').either(leaf())),
    ("Group(leaf)", lambda: Group(leaf())),
    ("Capture(leaf)", lambda: Capture(leaf())),
    ("Optional(leaf)", lambda: Optional(leaf())),
    ("leaf * 2", lambda: leaf() * 2),
    ("MatchAtStart(leaf)", lambda: MatchAtStart(leaf())),
    ("FollowedBy('b', leaf)", lambda: FollowedBy('b', leaf())),
]
bad = 0
for label, build in CASES:
    try:
        p = build()
    except LIB as e:
        print(f"ok    {label}: raised {type(e).__name__}")
        continue
    try:
        p.has_match("bA")
        re.compile(p.get_pattern(), F)
        print(f"ok    {label}: {p.get_pattern()!r} is usable")
    except re.error as e:
        bad += 1
        print(f"FAIL  {label} (leaf = Pregex({RAW!r}, escape=False))\n      returned {p.get_pattern()!r}; first use raises re.error: {e}")
sys.exit(1 if bad else 0)
