"""
C03 demo 4: get_pattern() / __repr__ turns "backslash + control character"
(an escaped newline, tab, ... - exactly what re.escape() emits) into
"escaped backslash + letter", so the exported text is not equivalent to the
pattern the object matches with; compile() - which compiles the exported
text - silently changes what the object matches, and inside a look-behind the
exported text does not even compile.

Exits 1 while the defect is present.
"""
import re, sys, warnings
warnings.simplefilter("ignore")
from pregex.core.pre import Pregex

F = re.M | re.S
bad = 0

text = "a\nb"
raw = re.escape(text)                       # 'a\\\nb' : a, backslash, NEWLINE, b - a valid regex for "a\nb"
assert re.fullmatch(raw, text, F)
p = Pregex(raw, escape=False)
exported = p.get_pattern()
before = p.is_exact_match(text)
ok_export = re.fullmatch(exported, text, F) is not None
p.compile()
after = p.is_exact_match(text)
print(f"Pregex(re.escape({text!r}), escape=False)")
print(f"  internal pattern {str(p)!r}, exported text {exported!r}")
print(f"  is_exact_match({text!r}) before compile(): {before}; exported text matches: {ok_export}; after compile(): {after}")
if not (before and ok_export and after):
    bad += 1
    print("  FAIL: exported text is not equivalent to the internal pattern")

for label, build in [
    ("Pregex('x').preceded_by(Pregex('\\\\\\t', escape=False).either('y'))", lambda: Pregex('x').preceded_by(Pregex('\\\t', escape=False).either('y'))),
    ("Pregex('\\\\\\x0c', escape=False) + 'a'", lambda: Pregex('\\\x0c', escape=False) + 'a'),
]:
    q = build()
    re.compile(str(q), F)                   # the internal pattern is fine
    try:
        c = re.compile(q.get_pattern(), F)
        same = all(bool(c.search(s)) == q.has_match(s) for s in ("\tx", "yx", "\x0ca", "\\ca", "a"))
        if not same:
            bad += 1
            print(f"FAIL  {label}: export {q.get_pattern()!r} matches differently from internal {str(q)!r}")
        else:
            print(f"ok    {label}")
    except re.error as e:
        bad += 1
        print(f"FAIL  {label}: internal {str(q)!r} compiles, export {q.get_pattern()!r} does not: {e}")
sys.exit(1 if bad else 0)
