"""
C03 demo 1: a look-behind call accepts an assertion pattern that Python's re
rejects inside a look-behind for a reason other than "variable width", and
returns a Pregex that raises re.error the first time it is used.

Exits 1 while the defect is present, 0 once every case below either raises one
of pregex's own exceptions or yields a pattern that re accepts.
"""
import re, sys, warnings
warnings.simplefilter("ignore")
from pregex.core.pre import Pregex
from pregex.core.groups import Capture, Backreference, Conditional
from pregex.core.quantifiers import OneOrMore
from pregex.core.assertions import PrecededBy, NotPrecededBy, EnclosedBy
import pregex.core.exceptions as ex

LIB = tuple(v for v in vars(ex).values() if isinstance(v, type) and issubclass(v, Exception))

CASES = [
    # a single call, every group the reference needs is defined by the user inside the argument
    ("Pregex('b').preceded_by(Capture('a') + Backreference(1))",
        lambda: Pregex('b').preceded_by(Capture('a') + Backreference(1)), "ab"),
    ("Pregex('b').not_preceded_by(Capture('a') + Backreference(1))",
        lambda: Pregex('b').not_preceded_by(Capture('a') + Backreference(1)), "ab"),
    ("PrecededBy('b', Capture('a', 'n') + Backreference('n'))",
        lambda: PrecededBy('b', Capture('a', 'n') + Backreference('n')), "ab"),
    ("EnclosedBy('b', Capture('a', 'n') + Conditional('n', 'x', 'y'))",
        lambda: EnclosedBy('b', Capture('a', 'n') + Conditional('n', 'x', 'y')), "ab"),
    # the width check is made on the assertion in isolation: the referenced group exists, but is not fixed-width
    ("Capture(OneOrMore('a')) + Pregex('b').preceded_by(Backreference(1))",
        lambda: Capture(OneOrMore('a')) + Pregex('b').preceded_by(Backreference(1)), "aab"),
    ("Capture(OneOrMore('a'), 'n') + NotPrecededBy('b', Backreference('n'))",
        lambda: Capture(OneOrMore('a'), 'n') + NotPrecededBy('b', Backreference('n')), "aab"),
]

bad = 0
for label, build, text in CASES:
    try:
        p = build()
    except LIB as e:
        print(f"ok    {label}: raised {type(e).__name__}")
        continue
    try:
        p.has_match(text)
        re.compile(p.get_pattern(), re.M | re.S)
        print(f"ok    {label}: {p.get_pattern()!r} is usable")
    except re.error as e:
        bad += 1
        print(f"FAIL  {label}\n      returned {p.get_pattern()!r}; first use raises re.error: {e}")
sys.exit(1 if bad else 0)
