"""
C03 demo 2: a pattern that contains a *named* capturing group is duplicated or
combined by an ordinary pattern-building call, and the returned Pregex defines
the same group name twice: re.error ("redefinition of group name") on first use.

Exits 1 while the defect is present.
"""
import re, sys, warnings
warnings.simplefilter("ignore")
from pregex.core.pre import Pregex
from pregex.core.classes import AnyDigit
from pregex.core.groups import Capture
from pregex.core.operators import Enclose, Concat, Either
from pregex.core.assertions import EnclosedBy, NotEnclosedBy
import pregex.core.exceptions as ex

LIB = tuple(v for v in vars(ex).values() if isinstance(v, type) and issubclass(v, Exception))
quote = Capture(Pregex('"'), 'q')      # one named group ...
digit = Capture(AnyDigit(), 'd')

CASES = [
    # ... that a single call places twice in its result
    ("Pregex('a').enclose(Capture('\"', 'q'))", lambda: Pregex('a').enclose(quote), '"a"'),
    ("Enclose('a', Capture('\"', 'q'))", lambda: Enclose('a', quote), '"a"'),
    ("Pregex('a').enclosed_by(Capture('\"', 'q'))", lambda: Pregex('a').enclosed_by(quote), '"a"'),
    ("EnclosedBy('a', Capture('\"', 'q'))", lambda: EnclosedBy('a', quote), '"a"'),
    ("NotEnclosedBy('a', Capture('\"', 'q'))", lambda: NotEnclosedBy('a', quote), '"a"'),
    # repeated use of one object / same name in two operands
    ("d = Capture(AnyDigit(), 'd'); d + '-' + d", lambda: digit + '-' + digit, '1-2'),
    ("Concat(Capture('a', 'x'), Capture('b', 'x'))", lambda: Concat(Capture('a', 'x'), Capture('b', 'x')), 'ab'),
    ("Either(Capture('a', 'x'), Capture('b', 'x'))", lambda: Either(Capture('a', 'x'), Capture('b', 'x')), 'a'),
    ("Capture(Capture('a', 'x') + 'b', 'x')", lambda: Capture(Capture('a', 'x') + 'b', 'x'), 'ab'),
]

bad = 0
for label, build, text in CASES:
    try:
        p = build()
    except LIB as e:
        print(f"ok    {label}: raised {type(e).__name__}")
        continue
    try:
        p.get_matches(text)
        re.compile(p.get_pattern(), re.M | re.S)
        print(f"ok    {label}: {p.get_pattern()!r} is usable")
    except re.error as e:
        bad += 1
        print(f"FAIL  {label}\n      returned {p.get_pattern()!r}; first use raises re.error: {e}")
sys.exit(1 if bad else 0)
