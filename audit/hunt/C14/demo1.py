"""C14 demo 1: is_path=True silently rewrites CR / CRLF line endings of the file.

A UTF-8 file whose content is 'é1\r\nb2\rc3\n' is matched as if it were 'é1\nb2\nc3\n':
every is_path method answers differently from the same method given the file's
content as a string.  Exits 1 while the defect is present, 0 once repaired.
"""
import os
import sys
import tempfile

from pregex.core.pre import Pregex

content = "é1\r\nb2\rc3\n"                      # multi-line, non-ASCII, Windows / old-Mac line ends
fd, path = tempfile.mkstemp(suffix=".txt")
os.write(fd, content.encode("utf-8"))
os.close(fd)
assert open(path, "rb").read().decode("utf-8") == content   # the file really holds this text

digit = Pregex(r"\d", escape=False)
cr = Pregex("\r")
line = Pregex("é1\r\nb2\rc3\n")
cap = Pregex(r"(\d)", escape=False)

calls = [
    ("Pregex('\\r').has_match",              lambda s, **k: cr.has_match(s, **k)),
    ("Pregex(content).is_exact_match",       lambda s, **k: line.is_exact_match(s, **k)),
    ("get_matches('\\r')",                   lambda s, **k: cr.get_matches(s, **k)),
    ("get_matches_and_pos(\\d)",             lambda s, **k: digit.get_matches_and_pos(s, **k)),
    ("get_matches_with_context(\\d, 1, 2)",  lambda s, **k: digit.get_matches_with_context(s, 1, 2, **k)),
    ("get_captures_and_pos((\\d))",          lambda s, **k: cap.get_captures_and_pos(s, **k)),
    ("replace(\\d -> '#')",                  lambda s, **k: digit.replace(s, "#", **k)),
    ("split_by_match(\\d)",                  lambda s, **k: digit.split_by_match(s, **k)),
    ("split_by_capture((\\d))",              lambda s, **k: cap.split_by_capture(s, **k)),
]

failed = 0
try:
    for name, fn in calls:
        on_text = fn(content)
        on_path = fn(path, is_path=True)
        if on_text != on_path:
            failed += 1
            print(f"VIOLATION {name}")
            print(f"    file content (utf-8 decoded): {content!r}")
            print(f"    method(content)             : {on_text!r}")
            print(f"    method(path, is_path=True)  : {on_path!r}")
    # the context-window formula of the property, evaluated on the file's text
    expected = [content[max(s - 1, 0):min(e + 2, len(content))]
                for _, s, e in digit.get_matches_and_pos(content)]
    got = digit.get_matches_with_context(path, 1, 2, is_path=True)
    if got != expected:
        failed += 1
        print("VIOLATION windows != text[max(s-n_left,0):min(e+n_right,len(text))]")
        print(f"    expected {expected!r}")
        print(f"    got      {got!r}")
finally:
    os.remove(path)

if failed:
    print(f"{failed} violation(s): is_path=True does not refer to the file's text")
    sys.exit(1)
print("ok: path and text agree")
sys.exit(0)
