"""C11 demo: results change after compile() / get_compiled_pattern(discard_after=False).

The uncompiled path matches with str(p); compile() builds the cached object from
get_pattern() (the *printable* repr of the pattern).  The two texts are different
regular expressions whenever the pattern holds a character that repr() rewrites
(newline, tab, non-printables, a quote when both quote kinds occur) in a position
where the rewrite is not meaning-preserving: right after a backslash, or as
insignificant whitespace / comment terminator under the inline VERBOSE flag.

Exits 1 on the defective code, 0 once both paths agree with re on str(p).
"""
import re
import sys
import warnings

warnings.simplefilter("ignore")
from pregex.core.pre import Pregex

FLAGS = re.MULTILINE | re.DOTALL

VERBOSE_DATE = """(?x)
    (\\d{4})   # year
    -
    (\\d{2})   # month
"""

CASES = [
    # (raw pattern handed to Pregex(..., escape=False), source text)
    (VERBOSE_DATE, "on 2024-05 and 1999-12"),          # multi-line verbose regex
    ("(?x) a b\t c", "abc"),                            # tab is insignificant under (?x)
    (r"""["\']""", "say \\ then 'hi'"),                 # escaped quote inside a class
    ("\\\n", "line1\nline2"),                           # backslash-escaped newline
    ("a\\\tb", "a\tb a\\tb"),                           # backslash-escaped tab
    ("x\\\xa0y", "x\xa0y"),                             # backslash-escaped NBSP
]


def observe(p, text):
    return {
        "get_matches": p.get_matches(text),
        "iterate_matches": list(p.iterate_matches(text)),
        "get_matches_and_pos": p.get_matches_and_pos(text),
        "iterate_matches_and_pos": list(p.iterate_matches_and_pos(text)),
        "has_match": p.has_match(text),
        "is_exact_match": p.is_exact_match(text),
    }


def reference(pattern, text):
    ms = [(m.group(0), *m.span()) for m in re.finditer(pattern, text, FLAGS)]
    return {
        "get_matches": [m[0] for m in ms],
        "iterate_matches": [m[0] for m in ms],
        "get_matches_and_pos": ms,
        "iterate_matches_and_pos": ms,
        "has_match": re.search(pattern, text, FLAGS) is not None,
        "is_exact_match": re.fullmatch(pattern, text, FLAGS) is not None,
    }


failures = 0
for raw, text in CASES:
    re.compile(raw, FLAGS)                      # the raw pattern is a valid regex
    p = Pregex(raw, escape=False)
    assert str(p) == raw
    want = reference(str(p), text)
    steps = []
    steps.append(("fresh (uncompiled)", observe(p, text)))
    try:
        p.compile()
        steps.append(("after compile()", observe(p, text)))
        p.get_compiled_pattern(discard_after=True)
        steps.append(("after get_compiled_pattern(True)", observe(p, text)))
        p.get_compiled_pattern(discard_after=False)
        steps.append(("after get_compiled_pattern(False)", observe(p, text)))
        Pregex.purge()
        steps.append(("after purge()", observe(p, text)))
    except Exception as e:                      # compile of the printable text may also fail
        steps.append(("compile raised", {"error": repr(e)}))
    for label, got in steps:
        if got != want:
            failures += 1
            print("VIOLATION")
            print("  str(p)        =", repr(str(p)))
            print("  get_pattern() =", repr(p.get_pattern()))
            print("  source        =", repr(text))
            print("  history       =", label)
            for k in got:
                if got[k] != want.get(k):
                    print(f"    {k}: got {got[k]!r}, re on str(p) gives {want.get(k)!r}")

if failures:
    print(f"{failures} violating observation(s)")
    sys.exit(1)
print("no violation")
sys.exit(0)
