"""Workloads W1-W5 (DESIGN.md section 3.6): program generators.

Only lists and random.Random are used - never set/dict iteration order - so that
(seed, shard, index) denotes the same program under every PYTHONHASHSEED.
"""
import itertools
import random

META = ['^', '$', '(', ')', '[', ']', '{', '}', '?', '+', '*', '.', '|', '/', '\\']
SIGMA1 = META + ['-', '\n', '\t', '\r', ' ', "'", '"', '#', '&', '~', 'a', 'A', '0', '_', 'é', 'ß', 'İ',
                 '€', '\x00', '\x7f', ' ', '\U0001F600', ',', ':', '<', '>', '=', '!', '%', '@', '`', ';']
SIGMA2 = META + ['a', '-', '\n']
LOOKALIKES = [
    'US$', 'US$ 5', '^a', 'a$', 'a|b', '(?:a)', '(?=a)', '(?!a)', '(?<=a)', '(?<!a)', '(?P<n>', '(?P<n>a)',
    '(?P=n)', '[a-z]', '[^a]', '[a', 'a]', 'a{2,3}', 'a{2}', '{2}', 'a{,3}', 'a{2,}', '\\A', '\\Z', '\\b', '\\B',
    '\\1', '\\d', '\\w', '\\s', '\\n', '(?i)', '(?i:a)', 'x)', '(x', '()', '(a)', '(a)b', 'a(b)', '((a))', '(a)(b)',
    '(a|b)', 'a?', 'a+', 'a*', 'a??', 'a+?', 'a*?', 'ab?', '?a', '*a', '+a', '?:x', '?:', '?P<', '>', 'a.b', '.',
    '..', '.*', '.+', 'a\\', '\\a', '\\\\', '\\\\\\', 'a\\\\b', '\\(', '\\)', '\\[', '\\]', '\\$', '\\^', '\\.',
    '\\|', '\\?', '\\\\$', '\\\\(', '\\\\[', '\\\\\\$', '\\\\\\\\$', '$^', '^$', '^', '$', 'a^b', 'a$b', '$a', 'a^',
    'a\nb', '\n', 'a\n', '\na', '\r\n', 'a\tb', ' ', '  ', 'a b', ' a', 'a ', "it's", '"q"', '#c', 'a#b', 'a-b',
    '-', '--', 'a-', '-a', '[-]', '[]', '][', ']', '[', '[[', ']]', '[]]', '[^]', '[\\]', '{', '}', '{}', '{a}',
    '{1', '1}', '{,}', 'a|', '|a', '|', '||', 'a||b', '/', 'a/b', '//', '/a/', 'é', 'aé', 'éa', 'ß', 'İi', '€5',
    '\x00', 'a\x00b', '\x7f', ' ', '\U0001F600', 'a\U0001F600', 'AbC', 'abc', 'ABC', 'a1_', '__', '0', '007',
    ':-)', '::std', ':', '?:', ':?', ':(', 'a:b', '(?#c)', '(?(1)a|b)', '(?(n)a)', '(?>a)', 'a*+', 'a++', '(?s:.)', '(?-i:a)', '\\N{DASH}', '\\x41', '\\u0041',
    '\\101', '\\0', '\\g<1>', '&&', '~~', '[[:alpha:]]', '[a&&b]', '(*)', '(+)', '(?)', 'a{', 'a}', '(?', '(?:', '(?P',
]


def backslash_runs():
    out = []
    for m in META:
        for k in range(1, 6):
            out.append('\\' * k + m)
            out.append('a' + '\\' * k + m)
    # backslash runs in front of characters that repr() / printable exports treat specially
    for m in ("'", '"', 'n', 't', 'x41', 'u0041', 'N', '0', '1', ' ', '\n', 'Z', 'A', 'b', 'g'):
        for k in (1, 2, 3):
            out.append('\\' * k + m)
            out.append('a' + '\\' * k + m + 'b')
    return out


# literals that are format templates (messages built with % / str.format / f-strings) or quote mixtures
# combining sequences / characters that normalisation, casing or width logic may treat specially
COMBINING = ['e\u0301', 'o\u0308', 'A\u030a', '\u1100\u1161', '=\u0338', 'e\u0323\u0301', '\u0301', 'a\u200d', '\ufe0f', '\u212b', 'ǆ', 'ﬁ', 'ß', 'İ', 'ı',
             '\u0345', 'Σς', '\U0001F1E9\U0001F1EA']
TEMPLATES = ['%', '100%', '%d', '%s items', '%%', '%(a)s', 'a%', '{0}', '{}', '{a}', '{0!r}', '{{', '}}', '{0', "'", '"', "'\"", "a'b", 'a"b',
             "\\'", "\\'\"", "'\\", "it's \\'q\\'", '\\"', "\\\\'", '$&', '\\g<0>', '\\0']


def long_strings(rnd, n):
    out = ['.'.join('abcdefghijklmnopqrstuvwxyz0123'), 'https://www.example.com/a/b/c/d/e/f.g.h?i=j&k=(l)+m*n|o[p]{q}^r$s', '+----+----+----+----+----+----+',
           '/usr/local/lib/python3.12/site-packages/pregex/core/pre.py::Pregex.__init__(self, pattern)', ''.join(META) * 3, '\\' * 20 + 'd',
           '(' * 30 + ')' * 30, 'a' * 100 + '.', '$' * 26, '1.2.3.4.5.6.7.8.9.10.11.12.13.14.15.16.17.18.19.20.21.22.23.24.25.26.27.28', '[x]' * 12, 'a|' * 40,
           ('x' * 63) + '.', ('x' * 64) + '.', ('x' * 65) + '+', 'ab' * 200 + '?']
    for _ in range(n):
        L_ = rnd.choice([25, 26, 30, 33, 48, 64, 65, 100, 129, 257])
        k = rnd.random()
        alpha = META if k < 0.4 else META + ['a', 'b', '0', ' ', '\n', '-'] if k < 0.8 else ['a', 'b', 'c', '.', '\\']
        out.append(''.join(rnd.choice(alpha) for _ in range(L_)))
    return out


def hostile_strings(tier, rnd):
    out = list(SIGMA1)
    out += long_strings(rnd, 12 if tier == 'quick' else 200)
    out += [a + b for a in SIGMA2 for b in SIGMA2]
    out += LOOKALIKES
    out += backslash_runs()
    out += TEMPLATES
    out += COMBINING
    if tier == 'thorough':
        out += [a + b + c for a in SIGMA2 for b in SIGMA2 for c in SIGMA2 if rnd.random() < 0.5]
    n = 400 if tier == 'quick' else 6000
    for _ in range(n):
        L = rnd.choice([1, 2, 3, 4, 6, 9, 12])
        k = rnd.random()
        if k < 0.35:
            s = ''.join(rnd.choice(SIGMA1) for _ in range(L))
        elif k < 0.6:
            s = ''.join(rnd.choice(META + ['a', 'b', '\n', '-']) for _ in range(L))
        else:
            s = ''.join(chr(_cp(rnd)) for _ in range(L))
        out.append(s)
    return list(dict.fromkeys(out))


def _cp(rnd):
    k = rnd.random()
    if k < 0.4:
        return rnd.randrange(0, 128)
    if k < 0.6:
        return rnd.randrange(128, 0x800)
    if k < 0.85:
        c = rnd.randrange(0x800, 0x10000)
        return c
    return rnd.randrange(0x10000, 0x110000)


# ---------------------------------------------------------------------------- node helpers
def L(s):
    return {'o': 'lit', 's': s}


def PL(s):
    return {'o': 'plit', 's': s}


def CLS(n, **kw):
    d = {'o': 'cls', 'n': n}
    if kw:
        d['kw'] = kw
    return d


def FROM(*cs, neg=False):
    d = {'o': 'from', 'cs': list(cs)}
    if neg:
        d['neg'] = True
    return d


def BTW(a, b, neg=False):
    d = {'o': 'btw', 'a': a, 'b': b}
    if neg:
        d['neg'] = True
    return d


def TOK(n):
    return {'o': 'tok', 'n': n}


def E(k=0):
    return {'o': 'empty', 'k': k}


def RAW(s):
    return {'o': 'raw', 's': s}


def OPN(o, *xs, **kw):
    d = {'o': o, 'x': list(xs)}
    d.update(kw)
    return d


# ---------------------------------------------------------------------------- W2 positions
def positions(s, forms=('c', 'm', 'o')):
    """every public position that accepts a str, the other slots filled with neutral operands.
    returns [(position-name, program)]"""
    lit = L(s)
    Z = L('z')
    out = []

    def add(name, node, form):
        out.append((name, {'prog': node, 'form': form}))
    add('Pregex(s)', PL(s), 'c')
    for f in forms:
        add('concat.left/' + f, OPN('cat', lit, Z), f)
        add('concat.right/' + f, OPN('cat', Z, lit), f)
        add('concat.mid/' + f, OPN('cat', Z, lit, Z), f)
    add('concat(on_right=False)', OPN('cat', Z, lit, left=True), 'm')
    add('concat(on_right=False).recv', OPN('cat', lit, Z, left=True), 'm')
    for f in ('c', 'm'):
        add('either.left/' + f, OPN('alt', lit, Z), f)
        add('either.right/' + f, OPN('alt', Z, lit), f)
        add('enclose.center/' + f, OPN('enc', lit, Z), f)
        add('enclose.enclosing/' + f, OPN('enc', Z, lit), f)
    add('either(on_right=False)', OPN('alt', Z, lit, left=True), 'm')
    add('Enclose.enclosing2', OPN('enc', Z, Z, lit), 'c')
    for f in ('c', 'm'):
        for g in (True, False):
            gs = 'g' if g else 'l'
            add('optional/%s%s' % (f, gs), OPN('opt', lit, g=g), f)
            add('indefinite/%s%s' % (f, gs), OPN('star', lit, g=g), f)
            add('one_or_more/%s%s' % (f, gs), OPN('plus', lit, g=g), f)
        add('exactly2/' + f, OPN('ex', lit, n=2), f)
        add('exactly1/' + f, OPN('ex', lit, n=1), f)
        add('at_least2/' + f, OPN('al', lit, n=2), f)
        add('at_most3/' + f, OPN('am', lit, n=3), f)
        add('at_least_at_most/' + f, OPN('q', lit, n=2, m=4, g=False), f)
        add('capture/' + f, OPN('cap', lit), f)
        add('capture.named/' + f, OPN('cap', lit, name='nm'), f)
        add('group/' + f, OPN('grp', lit), f)
        add('group.ci/' + f, OPN('grp', lit, ci=True), f)
        for a in ('mas', 'mae', 'mals', 'male'):
            add(a + '/' + f, OPN(a, lit), f)
        for lk in ('fol', 'nfol', 'pre', 'npre', 'lenc', 'nlenc'):
            add(lk + '.match/' + f, OPN(lk, lit, Z), f)
            add(lk + '.assertion/' + f, OPN(lk, Z, lit), f)
    for f in ('c', 'm'):
        add('capture(group)/' + f, OPN('cap', OPN('grp', lit)), f)
        add('capture.named(group)/' + f, OPN('cap', OPN('grp', lit), name='nm'), f)
        add('group(capture)/' + f, OPN('grp', OPN('cap', lit)), f)
        add('group.ci(capture.named)/' + f, OPN('grp', OPN('cap', lit, name='nm'), ci=True), f)
        add('capture(group.ci)/' + f, OPN('cap', OPN('grp', lit, ci=True)), f)
        add('group(group.ci)/' + f, OPN('grp', OPN('grp', lit, ci=True)), f)
        add('capture.named(capture.named)/' + f, OPN('cap', OPN('cap', lit, name='in'), name='out'), f)
        add('optional(group)/' + f, OPN('opt', OPN('grp', lit)), f)
    add('mul', OPN('ex', lit, n=3), 'o')
    add('rmul', OPN('ex', lit, n=3, rmul=True), 'o')
    add('Conditional.pre1', OPN('cat', OPN('opt', OPN('cap', Z, name='cn')), OPN('cond', lit, name='cn')), 'c')
    add('Conditional.pre2', OPN('cat', OPN('opt', OPN('cap', Z, name='cn')), OPN('cond', Z, lit, name='cn')), 'c')
    # next to a numeric back reference (a digit-leading / backslash-ending literal must stay what it is)
    capz = OPN('cap', Z)
    ref1 = {'o': 'bref', 'r': 1}
    for f in forms:
        add('concat.after-backref/' + f, OPN('cat', capz, ref1, lit), f)
        add('concat.after-backslash-backref/' + f, OPN('cat', capz, L('q\\'), ref1, lit), f)
        add('concat.before-backref/' + f, OPN('cat', capz, lit, ref1, L('0')), f)
    add('enclose.after-backref', OPN('cat', capz, OPN('enc', ref1, lit)), 'c')
    add('FollowedBy.assertion2', OPN('fol', Z, Z, lit), 'c')
    add('NotPrecededBy.assertion2', OPN('npre', Z, Z, lit), 'c')
    return out


TWINS = None


def twins():
    """(program node P, text of str(P)): a plain string that *looks like* its neighbour's regex must still be literal"""
    return [(CLS('AnyDigit'), '\\d'), (CLS('Any'), '.'), (CLS('AnyLowercaseLetter'), '[a-z]'), (CLS('AnyButDigit'), '\\D'),
            (OPN('alt', L('a'), L('b')), 'a|b'), (OPN('opt', L('x')), 'x?'), (OPN('plus', L('b')), 'b+'), (OPN('star', L('c')), 'c*'),
            (OPN('q', L('c'), n=1, m=3), 'c{1,3}'), (OPN('ex', L('a'), n=2), 'a{2}'), (OPN('alt', L('d'), L('ef')), 'd|ef'),
            (OPN('cap', L('a')), '(a)'), (OPN('grp', L('ab')), '(?:ab)'), (OPN('male', L('a')), 'a$'), (OPN('mas', L('a')), '\\Aa'),
            (OPN('mals', L('a')), '^a'), (OPN('fol', L('a'), L('b')), 'a(?=b)'), ({'o': 'wb'}, '\\b'), (TOK('Dollar'), '\\$'),
            (OPN('cap', L('a'), name='n'), '(?P<n>a)'), (FROM('a', 'b', 'c'), '[a-c]'), (OPN('opt', L('ab')), '(?:ab)?')]


def twin_programs():
    """programs in which a literal s sits next to a pattern whose regex source is s; `hole` is s"""
    Z = L('z')
    for P, s in twins():
        lit = L(s)
        progs = [('c', OPN('alt', P, lit)), ('c', OPN('alt', lit, P)), ('m', OPN('alt', P, lit)), ('c', OPN('alt', Z, P, lit)), ('c', OPN('alt', lit, Z, P)),
                 ('c', OPN('cat', P, lit)), ('o', OPN('cat', lit, P)), ('c', OPN('enc', P, lit)), ('c', OPN('enc', lit, P)),
                 ('c', OPN('fol', Z, lit, P)), ('c', OPN('fol', Z, P, lit)), ('c', OPN('nfol', Z, lit, P)), ('c', OPN('nfol', Z, P, lit)),
                 ('c', OPN('pre', Z, lit, P)), ('c', OPN('npre', Z, lit, P)), ('c', OPN('npre', Z, P, lit)), ('c', OPN('lenc', Z, lit, P)),
                 ('c', OPN('nlenc', Z, lit, P)), ('c', OPN('nlenc', Z, P, lit)), ('m', OPN('npre', Z, lit, P))]
        for f, pr in progs:
            yield {'prog': pr, 'form': f, 'w': 'Wtwin', 'hole': s, 'pos': 'twin'}


# ---------------------------------------------------------------------------- W3 leaf basis
def leaf_basis(reduced=False):
    b = [
        L('a'), L('ab'), L('abc'), L('a$'), L('^a'), L('a|b'), L('[x'), L('x]'), L('('), L(')'), L('a)'),
        L('(?:'), L('a?'), L('a+'), L('{2}'), L('\\'), L('a\\'), L('\n'), L('a.b'), L('US$'), L('\\$'), L('a\nb'),
        PL('ab'), PL('a|b'),
        CLS('AnyLetter'), CLS('Any'), CLS('AnyButDigit'), CLS('AnyWhitespace'), CLS('AnyWordChar', is_global=True),
        FROM('['), FROM('(', '\n'), FROM('+', '-'), FROM(']', '\\', '^'), FROM('?', '*', '{'), FROM('$'), FROM('a'),
        BTW('a', 'f'),
        TOK('Dollar'), TOK('Backslash'), TOK('Newline'),
        E(0), E(1), E(2), E(3), E(4), E(5),
        {'o': 'wb'}, {'o': 'nwb'},
        OPN('mas', E(0)), OPN('male', E(0)), OPN('fol', E(0), L('a')), OPN('npre', E(0), L('b')),
        OPN('pre', E(0), L('b')), OPN('nfol', E(0), L('a')),
        OPN('alt', L('x'), L('yz')), OPN('alt', L('ab'), L('cd'), L('e')),
        OPN('opt', L('a')), OPN('plus', L('ab')), OPN('q', CLS('AnyDigit'), n=2, m=3), OPN('star', L('a'), g=False),
        OPN('ex', L('ab'), n=2),
        OPN('cap', L('a')), OPN('cap', L('ab'), name='g1'), OPN('grp', L('ab')), OPN('grp', L('ab'), ci=True),
        OPN('cap', OPN('alt', L('a'), L('b'))),
        OPN('cat', L('a'), CLS('AnyDigit')), OPN('mas', L('a')), OPN('male', L('a')),
        OPN('fol', L('a'), L('b')), OPN('npre', L('a'), L('b')), OPN('lenc', L('a'), L('q')),
        {'o': 'bref', 'r': 1}, {'o': 'bref', 'r': 'g1'}, L('0'), L('12'),
        OPN('cond', L('a'), name='g1'), OPN('cond', L('a'), L('bc'), name='g1'),
        RAW('a|b'), RAW('(?:ab)+'), RAW('[ab]c'),
        OPN('cat', OPN('cap', OPN('cat', L('a'), FROM('(', 'x'))), OPN('cap', OPN('cat', L('b'), FROM(')', 'y')))),
        OPN('cat', OPN('grp', FROM('(')), OPN('grp', FROM(')'))), BTW('(', '\\'), FROM('(', '\\'), OPN('cat', L('a\\'), FROM('^', 'x', ')', neg=True)),
        # classes that hold a line feed next to an unbalanced parenthesis / a bar (the class-simplifying step must see them as classes)
        FROM(')', '\n'), OPN('alt', FROM('\n', '('), FROM('\n', ')')), OPN('cat', OPN('cap', OPN('cat', L('a'), FROM('\n', '('))), L('x'), OPN('cap', OPN('cat', L('b'), FROM('\n', ')')))),
        FROM('|', '\n'), OPN('cat', FROM('\n', '|'), L('b')),
    ]
    if reduced:
        keep = [0, 1, 3, 5, 6, 9, 11, 12, 15, 17, 24, 25, 29, 30, 31, 37, 40, 43, 46, 48, 50, 54, 55, 56, 57, 60,
                61, 62, 63, 64, 65, 67, 68, 70, 72, 73, 75]
        b = [b[i] for i in keep if i < len(b)]
    return b


def MT(n):
    return {'o': 'meta', 'n': n}


META_NAMES = ['Integer', 'Integer5_120', 'NegInt', 'Decimal', 'Date', 'Date2', 'IPv4', 'Word', 'WordContains', 'Numeral2', 'IntegerExt',
              'Email', 'HttpUrl']


def meta_operand_programs():
    """operands produced by the meta layer under every operator / quantifier / group / assertion template"""
    partners = [L('a'), L('a|b'), L('1'), L('.'), CLS('AnyDigit'), OPN('alt', L('x'), L('yz')), E(0), OPN('cap', L('q')), MT('Integer5_120'), MT('Word')]
    for n in META_NAMES:
        x = MT(n)
        for name, fn, forms in unary_templates():
            for f in forms:
                yield {'prog': fn(x), 'form': f, 'w': 'W3m'}
        for name, fn, forms in binary_templates():
            for y in partners:
                for f in forms:
                    yield {'prog': fn(x, y), 'form': f, 'w': 'W3m'}
                    yield {'prog': fn(y, x), 'form': f, 'w': 'W3m'}
        yield {'prog': OPN('cat', OPN('cap', x, name='m1'), L(' '), {'o': 'bref', 'r': 'm1'}), 'form': 'c', 'w': 'W3m'}
        yield {'prog': OPN('plus', OPN('cat', x, OPN('opt', L(',')))), 'form': 'm', 'w': 'W3m'}


def deep_programs():
    """nesting far beyond what random generation reaches: alternations / quantifiers / groups d levels deep, then used as
    operand of every kind of composition"""
    for d in (6, 9, 10, 13, 17, 33):
        for step in ('optcat', 'grp', 'cap', 'alt'):
            p = L('a')
            for i in range(d):
                if step == 'optcat':
                    p = OPN('cat', OPN('opt', p), L('c'))
                elif step == 'grp':
                    p = OPN('grp', OPN('cat', p, L('c')), ci=(i % 5 == 4))
                elif step == 'cap':
                    p = OPN('cap', OPN('cat', L('c'), p))
                else:
                    p = OPN('cat', OPN('alt', p, L('dd')), L('c'))
            tops = [p, OPN('alt', p, L('b')), OPN('alt', L('b'), p), OPN('alt', p, L('b'), f='m')]
            for t in tops:
                yield {'prog': OPN('cat', t, L('x')), 'form': 'c', 'w': 'Wdeep'}
                yield {'prog': OPN('cat', L('x'), t), 'form': 'o', 'w': 'Wdeep'}
                yield {'prog': OPN('cat', t, L('x')), 'form': 'm', 'w': 'Wdeep'}
                yield {'prog': OPN('enc', t, L('x')), 'form': 'c', 'w': 'Wdeep'}
                yield {'prog': OPN('mas', t), 'form': 'c', 'w': 'Wdeep'}
                yield {'prog': OPN('male', t), 'form': 'm', 'w': 'Wdeep'}
                yield {'prog': OPN('fol', t, L('z')), 'form': 'c', 'w': 'Wdeep'}
                yield {'prog': OPN('nfol', L('z'), t), 'form': 'c', 'w': 'Wdeep'}
                yield {'prog': OPN('plus', t), 'form': 'c', 'w': 'Wdeep'}
                yield {'prog': OPN('q', t, n=2, m=3), 'form': 'm', 'w': 'Wdeep'}
                yield {'prog': OPN('cap', t, name='top'), 'form': 'c', 'w': 'Wdeep'}
                yield {'prog': OPN('grp', t, ci=True), 'form': 'm', 'w': 'Wdeep'}
                yield {'prog': OPN('cond', t, L('y'), name='g1'), 'form': 'c', 'w': 'Wdeep'}


def many_operand_programs():
    """operators with dozens to a thousand operands, with and without empty operands at block-boundary positions"""
    for n in (31, 32, 33, 40, 64, 65, 100, 257, 1025):
        words = [L('w%d' % i) for i in range(n)]
        for op in ('alt', 'cat', 'enc'):
            if op == 'enc' and n > 100:
                continue
            yield {'prog': OPN(op, *words), 'form': 'c', 'w': 'Wmany'}
            for at in sorted({0, 1, 15, 16, 31, 32, 33, 63, 64, 65, 127, 128, 255, 256, 1023, 1024, n - 2, n - 1}):
                if not (0 <= at < n) or (n > 300 and at not in (0, 1023, 1024)):
                    continue
                for e in (E(0), E(1), E(5))[:1 if n > 300 else 3]:
                    ws = list(words)
                    ws[at] = e
                    yield {'prog': OPN(op, *ws), 'form': 'c', 'w': 'Wmany'}
        yield {'prog': OPN('cat', OPN('alt', *words), L('x')), 'form': 'c', 'w': 'Wmany'}
        yield {'prog': OPN('plus', OPN('alt', *words)), 'form': 'c', 'w': 'Wmany'}
        if n <= 100:
            for lk in ('fol', 'nfol', 'npre'):
                yield {'prog': OPN(lk, L('m'), *words), 'form': 'c', 'w': 'Wmany'}


BIG_BOUNDS = [255, 256, 257, 1000, 65534, 65535, 65536, 70000, 2 ** 31 - 1]


def big_bound_programs():
    for x in (L('a'), L('ab'), CLS('AnyDigit'), OPN('alt', L('x'), L('yz'))):
        for b in BIG_BOUNDS:
            for f in 'cm':
                yield {'prog': OPN('am', x, n=b), 'form': f, 'w': 'W5big'}
                yield {'prog': OPN('al', x, n=b), 'form': f, 'w': 'W5big'}
                yield {'prog': OPN('q', x, n=2, m=b), 'form': f, 'w': 'W5big'}
                yield {'prog': OPN('q', x, n=b, m=b), 'form': f, 'w': 'W5big'}
                yield {'prog': OPN('q', x, n=b, m=None), 'form': f, 'w': 'W5big'}
                yield {'prog': OPN('q', x, n=b, m=b + 1, g=False), 'form': f, 'w': 'W5big'}
            yield {'prog': OPN('ex', x, n=b), 'form': 'o', 'w': 'W5big'}
            yield {'prog': OPN('ex', x, n=b), 'form': 'c', 'w': 'W5big'}


RAW_VALID = ['()', '()(a)', 'a()b', '(|a)', '(a|)', '(())', '(?:)', '(?i:)', '(?=)', '(?!)', '(?<=)', 'a(?:)b', '[()]', '\\(\\)', '(\\()', '(?P<n>)',
             '((a)|(b))', '(a)|(b)', '(?:a|b)c', 'x*', '.{2,3}?', '\\b\\B', '(?#comment)a', 'a{0}', '$^', '(a)()', '()*', '(?:()|a)+', '[)]', '[(]', '(\\))',
             '(?#c)', '(?#c)a|b', '(?>a|ab)c', 'a*+', '(?=a)b', '(?<!a)b|c', '(?i:a)|b', '[]]', '[^]]', '(?P<n>a)(?P=n)', '(a)\\1', '(?(1)a|b)', '(a)?(?(1)b)', '\\A\\Z', '(?s:.)', 'a|', '|', '||a', '(?:|)', '(a||b)']


RAW_VALID += ['a\\\nb', '\\\t', '[\n\\\n]', 'x\x00y\\\x01', 'a\nb', '\\\u2028']     # a backslash directly before a non-printable character


def raw_valid_programs():
    """valid regular expressions handed over with escape=False (empty groups, empty alternatives, nested and flagged groups,
    references): whatever they mean to the type inference, no builder call may die on them"""
    for s in RAW_VALID:
        x = RAW(s)
        yield {'prog': x, 'form': 'c', 'w': 'Wraw'}
        for name, fn, forms in unary_templates():
            yield {'prog': fn(x), 'form': forms[0], 'w': 'Wraw'}
        for name, fn, forms in binary_templates():
            yield {'prog': fn(x, L('y')), 'form': forms[0], 'w': 'Wraw'}
            yield {'prog': fn(L('y'), x), 'form': forms[-1], 'w': 'Wraw'}


def unary_templates():
    """functions X -> program node; each tagged with the forms it exists in"""
    T = []

    def add(name, fn, forms=('c', 'm')):
        T.append((name, fn, forms))
    for g in (True, False):
        add('opt', lambda x, g=g: OPN('opt', x, g=g))
        add('star', lambda x, g=g: OPN('star', x, g=g))
        add('plus', lambda x, g=g: OPN('plus', x, g=g))
    for n in (0, 1, 2, 3):
        add('ex%d' % n, lambda x, n=n: OPN('ex', x, n=n), ('c', 'm', 'o'))
    add('rmul2', lambda x: OPN('ex', x, n=2, rmul=True), ('o',))
    add('rmul1', lambda x: OPN('ex', x, n=1, rmul=True), ('o',))
    for n in (0, 1, 2):
        add('al%d' % n, lambda x, n=n: OPN('al', x, n=n, g=(n != 2)))
    for n in (0, 1, 2, None):
        add('am%s' % n, lambda x, n=n: OPN('am', x, n=n, g=(n != 2)))
    for (n, m) in ((0, 0), (0, 1), (1, 1), (0, 2), (1, 2), (2, 2), (2, 4), (0, None), (1, None), (3, None)):
        add('q%s_%s' % (n, m), lambda x, n=n, m=m: OPN('q', x, n=n, m=m, g=(m != 4)))
    add('cap', lambda x: OPN('cap', x))
    add('capn', lambda x: OPN('cap', x, name='k1'))
    add('grp', lambda x: OPN('grp', x))
    add('grpi', lambda x: OPN('grp', x, ci=True))
    for a in ('mas', 'mae', 'mals', 'male'):
        add(a, lambda x, a=a: OPN(a, x))
    # a conditional without else-branch (its then-branch must stay one unit)
    add('cond1', lambda x: OPN('cat', OPN('opt', OPN('cap', L('q'), name='g1')), OPN('cond', x, name='g1')), ('c',))
    return T


def binary_templates():
    T = []

    def add(name, fn, forms=('c', 'm')):
        T.append((name, fn, forms))
    add('cat', lambda x, y: OPN('cat', x, y), ('c', 'm', 'o'))
    add('catL', lambda x, y: OPN('cat', x, y, left=True), ('m',))
    add('alt', lambda x, y: OPN('alt', x, y))
    add('altL', lambda x, y: OPN('alt', x, y, left=True), ('m',))
    add('enc', lambda x, y: OPN('enc', x, y))
    for lk in ('fol', 'nfol', 'pre', 'npre', 'lenc', 'nlenc'):
        add(lk, lambda x, y, lk=lk: OPN(lk, x, y))
    add('cond', lambda x, y: OPN('cond', x, y, name='g1'), ('c',))
    add('cat3', lambda x, y: OPN('cat', x, y, x), ('c', 'o'))
    add('alt3', lambda x, y: OPN('alt', x, y, L('w')), ('c',))
    return T


def w3_depth1(reduced=False):
    basis = leaf_basis(reduced)
    for name, fn, forms in unary_templates():
        for x in basis:
            for f in forms:
                yield {'prog': fn(x), 'form': f, 'w': 'W3.1'}
    for name, fn, forms in binary_templates():
        for x in basis:
            for y in basis:
                for f in forms:
                    yield {'prog': fn(x, y), 'form': f, 'w': 'W3.1'}


def w3_depth2(rnd=None, sample=None):
    """op2(op1(leaf..), leaf) and op2(leaf, op1(leaf..)) over the reduced basis.
    exhaustive when sample is None, else a stratified random sample of that many programs."""
    basis = leaf_basis(True)
    un = unary_templates()
    bi = binary_templates()

    def inner():
        for name, fn, forms in un:
            for x in basis:
                yield fn(x)
        for name, fn, forms in bi:
            for x in basis:
                for y in basis:
                    yield fn(x, y)
    if sample is None:
        for mid in inner():
            for name, fn, forms in un:
                for f in forms:
                    yield {'prog': fn(mid), 'form': f, 'w': 'W3.2'}
            for name, fn, forms in bi:
                for y in basis:
                    for f in forms:
                        yield {'prog': fn(mid, y), 'form': f, 'w': 'W3.2'}
                        yield {'prog': fn(y, mid), 'form': f, 'w': 'W3.2'}
        return
    mids = None
    for _ in range(sample):
        k = rnd.random()
        if k < 0.4:
            name, fn, forms = rnd.choice(un)
            mid = fn(rnd.choice(basis))
        else:
            name, fn, forms = rnd.choice(bi)
            mid = fn(rnd.choice(basis), rnd.choice(basis))
        if rnd.random() < 0.4:
            name, fn, forms = rnd.choice(un)
            yield {'prog': fn(mid), 'form': rnd.choice(forms), 'w': 'W3.2'}
        else:
            name, fn, forms = rnd.choice(bi)
            y = rnd.choice(basis)
            yield {'prog': fn(mid, y) if rnd.random() < 0.5 else fn(y, mid), 'form': rnd.choice(forms), 'w': 'W3.2'}


# ---------------------------------------------------------------------------- W4 random deep programs
HOST = ['a', 'ab', 'a$', '^a', 'a|b', '[x', 'x]', '(', ')', 'a)', '(?:', 'a?', 'a+', '{2}', '\\', 'a\\', '\n', 'a.b',
        'é', '$', 'US$ 5', '?:x', 'a*b', '\\$', '(?P<', '>', '\\\\', 'x|', '|', '[a-z]', '^', 'a\nb', '-', '/', '(a)',
        '\\b', '\\A', '.', '?', 'İ', '\x00', '\U0001F600', '\x7f', 'ß', '\t', 'a\rb', '\u2028', 'é$', '^é', 'Ω|ω', "it's", '\\\'', '\\\\\\\\', ' ']
BEN = ['a', 'b', 'ab', 'abc', 'x', 'xy', 'q', '0', '12', 'Ab', '7', '0x']
CLSCH = ['a', '[', '(', 'x', '+', '-', '$', ']', '^', '\\', '\n', '.', '?', '*', '{', ')', '/', 'z', '0']
NAMED = ['AnyLetter', 'Any', 'AnyButDigit', 'AnyWhitespace', 'AnyDigit', 'AnyWordChar', 'AnyPunctuation',
         'AnyButWhitespace', 'AnyLowercaseLetter', 'AnyButLetter']


class GenCtx:
    def __init__(self, rnd, hostile=0.5, p_empty=0.1, forms='cmo', mixed=True, caps=True, refs=True):
        self.rnd = rnd
        self.hostile = hostile
        self.p_empty = p_empty
        self.forms = forms
        self.mixed = mixed
        self.n = 0
        self.nodes = 0
        self.caps = caps
        self.refs = refs
        self.defined = []    # names of groups closed so far (for back references)


def rand_leaf(c):
    rnd = c.rnd
    c.nodes += 1
    k = rnd.random()
    if k < c.p_empty:
        return E(rnd.randrange(12))
    k = rnd.random()
    if k < 0.5:
        return L(rnd.choice(HOST if rnd.random() < c.hostile else BEN))
    if k < 0.56:
        return PL(rnd.choice(HOST if rnd.random() < c.hostile else BEN))
    if k < 0.68:
        return CLS(rnd.choice(NAMED))
    if k < 0.80:
        return FROM(*rnd.sample(CLSCH, rnd.choice([1, 2, 3])), neg=rnd.random() < 0.2)
    if k < 0.84:
        a, b = sorted(rnd.sample(['0', '9', 'a', 'f', 'z', 'A', 'Z'], 2))
        return BTW(a, b)
    if k < 0.90:
        return TOK(rnd.choice(['Dollar', 'Backslash', 'Newline', 'Space', 'Euro', 'Tab']))
    if k < 0.96:
        return {'o': rnd.choice(['wb', 'nwb'])}
    if c.refs and c.defined and rnd.random() < 0.7:
        return {'o': 'bref', 'r': rnd.choice(c.defined)}
    return L(rnd.choice(BEN))


OPS = ['cat', 'cat', 'cat', 'alt', 'alt', 'enc', 'opt', 'star', 'plus', 'q', 'q', 'ex', 'al', 'am', 'cap', 'cap',
       'grp', 'grp', 'fol', 'nfol', 'pre', 'npre', 'lenc', 'nlenc', 'mas', 'mae', 'mals', 'male', 'cond']


def rand_prog(c, d, dup=False, maxnodes=40):
    """dup=True: we are inside a slot the DSL duplicates -> no named captures there"""
    rnd = c.rnd
    if d == 0 or rnd.random() < 0.18 or c.nodes >= maxnodes:
        return rand_leaf(c)
    c.nodes += 1
    op = rnd.choice(OPS)
    node = None
    if op in ('cat', 'alt'):
        node = OPN(op, *[rand_prog(c, d - 1, dup, maxnodes) for _ in range(rnd.choice([2, 2, 3]))])
        if rnd.random() < 0.15:
            node['left'] = True
    elif op == 'enc':
        node = OPN(op, rand_prog(c, d - 1, dup, maxnodes), rand_prog(c, d - 1, True, maxnodes))
    elif op in ('opt', 'star', 'plus'):
        node = OPN(op, rand_prog(c, d - 1, dup, maxnodes), g=rnd.random() < 0.7)
    elif op == 'q':
        n = rnd.choice([0, 1, 2, 3])
        m = rnd.choice([None, n, n + 1, n + 2])
        node = OPN(op, rand_prog(c, d - 1, dup, maxnodes), n=n, m=m, g=rnd.random() < 0.7)
    elif op == 'ex':
        node = OPN(op, rand_prog(c, d - 1, dup, maxnodes), n=rnd.choice([0, 1, 2, 3]))
        if rnd.random() < 0.3:
            node['rmul'] = True
    elif op == 'al':
        node = OPN(op, rand_prog(c, d - 1, dup, maxnodes), n=rnd.choice([0, 1, 2]), g=rnd.random() < 0.7)
    elif op == 'am':
        node = OPN(op, rand_prog(c, d - 1, dup, maxnodes), n=rnd.choice([0, 1, 2, None]), g=rnd.random() < 0.7)
    elif op == 'cap':
        if not c.caps:
            return rand_prog(c, d, dup, maxnodes)
        inner = rand_prog(c, d - 1, dup, maxnodes)
        nm = None
        if not dup and rnd.random() < 0.5:
            c.n += 1
            nm = 'g%d' % c.n
        node = OPN(op, inner, name=nm)
        if nm:
            c.defined.append(nm)
    elif op == 'grp':
        node = OPN(op, rand_prog(c, d - 1, dup, maxnodes), ci=rnd.random() < 0.3)
    elif op in ('fol', 'nfol', 'pre', 'npre'):
        node = OPN(op, rand_prog(c, d - 1, dup, maxnodes), rand_prog(c, max(d - 2, 0), dup, maxnodes))
        if rnd.random() < 0.15:
            node['x'].append(rand_prog(c, 0, dup, maxnodes))
    elif op in ('lenc', 'nlenc'):
        node = OPN(op, rand_prog(c, d - 1, dup, maxnodes), rand_prog(c, max(d - 2, 0), True, maxnodes))
    elif op == 'cond':
        if not (c.refs and c.defined):
            return rand_prog(c, d, dup, maxnodes)
        xs = [rand_prog(c, d - 1, dup, maxnodes)]
        if rnd.random() < 0.5:
            xs.append(rand_prog(c, d - 1, dup, maxnodes))
        node = OPN(op, *xs, name=rnd.choice(c.defined))
    else:
        node = OPN(op, rand_prog(c, d - 1, dup, maxnodes))
    if c.mixed:
        node['f'] = rnd.choice(c.forms)
    return node


def w4_random(rnd, n, depth=(3, 4, 5), maxnodes=40, hostile=0.5, **kw):
    for _ in range(n):
        c = GenCtx(rnd, hostile=rnd.choice([0.0, hostile, hostile, 0.9]), **kw)
        t = rand_prog(c, rnd.choice(depth), maxnodes=maxnodes)
        if t['o'] in ('lit',):
            t = OPN('cat', t, E(0))
        yield {'prog': t, 'form': 'c', 'w': 'W4', 'spellings': True}


def strip_forms(t):
    if isinstance(t, dict):
        return {k: strip_forms(v) for k, v in t.items() if k != 'f'}
    if isinstance(t, list):
        return [strip_forms(i) for i in t]
    return t


# ---------------------------------------------------------------------------- W5 quantifier lattice
def quant_operands():
    return [L('a'), L('ab'), L('a$'), L('a|b'), L('?'), L('a+'), L('{2}'), L('('), L('\n'), PL('abc'),
            CLS('AnyDigit'), CLS('Any'), FROM('+', '-'), FROM('a'), TOK('Dollar'), TOK('Backslash'),
            E(0), E(4), {'o': 'wb'},
            OPN('alt', L('x'), L('yz')), OPN('opt', L('a')), OPN('plus', L('ab')), OPN('q', L('a'), n=2, m=3),
            OPN('star', L('a'), g=False), OPN('ex', L('ab'), n=2),
            OPN('cap', L('a')), OPN('cap', L('ab'), name='g1'), OPN('grp', L('ab')), OPN('grp', L('ab'), ci=True),
            OPN('cat', L('a'), CLS('AnyDigit')), OPN('cat', OPN('opt', L('a')), L('b')),
            OPN('mas', L('a')), OPN('mae', L('a')), OPN('mals', L('a')), OPN('male', L('a')),
            OPN('mas', E(0)), OPN('male', E(0)),
            OPN('fol', L('a'), L('b')), OPN('pre', L('a'), L('b')), OPN('lenc', L('a'), L('q')),
            OPN('nfol', L('a'), L('b')), OPN('npre', L('a'), L('b')), OPN('nlenc', L('a'), L('q')),
            OPN('fol', E(0), L('b')), OPN('npre', E(0), L('b')),
            OPN('grp', OPN('mas', L('a'))), OPN('cap', OPN('fol', L('a'), L('b'))),
            OPN('cat', OPN('mas', L('a')), L('b')), OPN('alt', OPN('mas', L('a')), L('b')),
            RAW('^a'), RAW('a|b'), RAW('(?:ab)+'),
            OPN('cat', OPN('cap', L('a'), name='g1'), {'o': 'bref', 'r': 'g1'}),
            OPN('opt', OPN('opt', L('a'))), OPN('star', OPN('plus', CLS('AnyDigit'))),
            OPN('cat', OPN('cap', OPN('cat', L('a'), FROM('(', 'x'))), OPN('cap', OPN('cat', L('b'), FROM(')', 'y')))),
            OPN('cat', OPN('grp', FROM('(')), OPN('grp', FROM(')'))), OPN('cap', BTW('(', '\\')), OPN('star', L('a')), OPN('star', CLS('Any')),
            OPN('plus', L('a')), OPN('star', OPN('cap', OPN('alt', L('a'), L('b')))), L('\\\\'),
            L('e\u0301'), L('\u1100\u1161'), L('=\u0338'), L('\U0001F600'), PL('o\u0308'),
            OPN('alt', FROM('\n', '('), FROM('\n', ')')), OPN('cat', OPN('cap', OPN('cat', L('a'), FROM('\n', '('))), L('x'), OPN('cap', OPN('cat', L('b'), FROM('\n', ')')))),
            ]


BOUNDS = [0, 1, 2, 3, 4, 7]
BADV = [-1, True, False, 1.5, '2']


def w5_lattice(tier='quick'):
    ops = quant_operands()
    for x in ops:
        for n in BOUNDS + BADV + [None]:
            for m in BOUNDS + [None] + BADV:
                if tier == 'quick' and (n in BADV or n is None) and m in BADV and (str(n), str(m)) not in (('-1', '-1'), ('True', '1.5')):
                    continue
                for g in (True, False):
                    if g is False and (n in BADV or m in BADV or n is None):
                        continue
                    for f in ('c', 'm'):
                        yield {'prog': OPN('q', x, n=n, m=m, g=g), 'form': f, 'w': 'W5'}
        for n in BOUNDS + BADV + [None]:
            for f in ('c', 'm', 'o'):
                yield {'prog': OPN('ex', x, n=n), 'form': f, 'w': 'W5'}
            yield {'prog': OPN('ex', x, n=n, rmul=True), 'form': 'o', 'w': 'W5'}
            for g in (True, False):
                for f in ('c', 'm'):
                    yield {'prog': OPN('al', x, n=n, g=g), 'form': f, 'w': 'W5'}
                    yield {'prog': OPN('am', x, n=n, g=g), 'form': f, 'w': 'W5'}
        for g in (True, False):
            for f in ('c', 'm'):
                for o in ('opt', 'star', 'plus'):
                    yield {'prog': OPN(o, x, g=g), 'form': f, 'w': 'W5'}
    if tier == 'thorough':
        for x in ops[:12]:
            for (n, m) in ((0, 65534), (1, 65534), (65534, 65534), (1000, 2000), (65534, None), (100, 100), (0, 255)):
                for f in ('c', 'm'):
                    yield {'prog': OPN('q', x, n=n, m=m), 'form': f, 'w': 'W5'}


# ---------------------------------------------------------------------------- invalid arguments (C03)
def w_invalid():
    bad = [{'o': 'badarg', 'v': v} for v in ('none', 'float', 'bytes', 'list', 'int', 'bool')]
    Z = L('z')
    for b in bad:
        for name, fn, forms in unary_templates():
            for f in forms:
                if f == 'c':
                    yield {'prog': fn(b), 'form': f, 'w': 'Winv'}
        for name, fn, forms in binary_templates():
            for f in forms:
                yield {'prog': fn(Z, b), 'form': f, 'w': 'Winv'}
                if f == 'c':
                    yield {'prog': fn(b, Z), 'form': f, 'w': 'Winv'}
    for nm in (None, 'a', '_a1', 'A_', '1a', 'a-b', '', 'a b', 'é', 'a\n', 5, 1.5, True, b'x', 'a²', 'aé', 'ñ1', 'a٣'):
        for f in ('c', 'm'):
            yield {'prog': OPN('cap', Z, name=nm), 'form': f, 'w': 'Winv'}
        if nm is not None:
            yield {'prog': {'o': 'bref', 'r': nm}, 'form': 'c', 'w': 'Winv'}
            yield {'prog': OPN('cond', Z, name=nm), 'form': 'c', 'w': 'Winv'}
    for r in (0, 1, 9, 10, 11, 99, 100, -1, 2.0, None, [1]):
        yield {'prog': {'o': 'bref', 'r': r}, 'form': 'c', 'w': 'Winv'}
    for v in ('none', 'float', 'bytes', 'list', 'int', 'bool'):
        yield {'prog': {'o': 'pregexbad', 'v': v}, 'form': 'c', 'w': 'Winv'}
        yield {'prog': {'o': 'pregexbad', 'v': v, 'escape': False}, 'form': 'c', 'w': 'Winv'}
    for lk in ('fol', 'nfol', 'pre', 'npre', 'lenc', 'nlenc'):
        yield {'prog': OPN(lk, Z), 'form': 'c', 'w': 'Winv'}
    for o in ('cat', 'alt'):
        yield {'prog': OPN(o), 'form': 'c', 'w': 'Winv'}
        yield {'prog': OPN(o, Z), 'form': 'c', 'w': 'Winv'}
    yield {'prog': OPN('enc', Z), 'form': 'c', 'w': 'Winv'}


# ---------------------------------------------------------------------------- stress
def w_stress():
    yield {'prog': PL('a.' * 5000), 'form': 'c', 'w': 'stress'}
    yield {'prog': OPN('opt', L('$x' * 3000)), 'form': 'c', 'w': 'stress'}
    yield {'prog': OPN('alt', *[L('w%d|' % i) for i in range(500)]), 'form': 'c', 'w': 'stress'}
    yield {'prog': OPN('cat', OPN('alt', *[L('w%d' % i) for i in range(300)]), L('z')), 'form': 'm', 'w': 'stress'}
    t = L('a(')
    for i in range(40):
        t = OPN(['opt', 'cap', 'grp', 'plus'][i % 4], t) if i % 5 else OPN('cat', t, L('b|'))
    yield {'prog': t, 'form': 'c', 'w': 'stress'}
    t = L('x')
    for i in range(40):
        t = OPN('alt', t, L('y%d' % i)) if i % 2 else OPN('cat', t, L('.'))
    yield {'prog': t, 'form': 'm', 'w': 'stress'}
    yield {'prog': FROM(*[chr(c) for c in range(33, 127)] + [chr(c) for c in range(0x400, 0x400 + 900, 3)]), 'form': 'c',
           'w': 'stress'}
    yield {'prog': OPN('q', L('ab'), n=1000, m=60000), 'form': 'c', 'w': 'stress'}
