"""DSL checks (C01-C05, C08-C10 and the DSL part of C03/C20): workloads, attribution of a
violating event to the properties it breaks, and the per-shard run loop."""
import collections
import itertools
import hashlib
import json
import random
import re
import time

from . import gen as G
from . import shadow as S


# ----------------------------------------------------------------------- attribution
def props_of(ev):
    """which of the given properties does this violating event break (DESIGN.md section 4)"""
    sym = ev.symptom or ''
    base, _, rest = sym.partition(':')
    fl = ev.flags
    P = set()
    raw = ('raw' in fl or any(o.startswith('Raw(') or 'Raw(' in o for o in ev.operands)) and 'foreign-group' not in fl
    emptyish = 'empty-operand' in fl or 'empty-expected' in fl or 'empty-spelling' in fl
    if base == 'crash':
        P.add('C03')
        if emptyish:
            P.add('C05')
        exp = (ev.expected or '')
        if exp.startswith('exc:'):
            # a call that MUST raise a documented exception died with a foreign one instead: that is also the
            # "wrong exception" of the property that demands the documented one
            involved = set(exp[4:].split('|'))
            if S.T_REPEAT in involved:
                P.add('C09')
            if S.T_WIDTH in involved:
                P.add('C10')
            if S.T_EMPTYNEG in involved:
                P.add('C05')
            if 'quant' in fl and (S.T_TYPE in involved or S.T_VALUE in involved):
                P.add('C04')
        elif exp == 'shadow' and 'quant' in fl and not raw:
            P.add('C04')
    elif base == 'uncompilable':
        P.add('C03')
        if not raw:
            P.add('C02')
            if 'quant' in fl:
                P.add('C04')
            if 'group' in fl:
                P.add('C08')
            if 'lookbehind' in fl:
                P.add('C10')
            if emptyish:
                P.add('C05')
    elif base in ('export-differs', 'not-printable'):
        P.add('C03')
    elif base in ('semantic', 'groups'):
        if not raw:
            P.add('C02')
            if base == 'groups' or rest == 'groups-diff' or 'group' in fl:
                P.add('C08')
            if 'quant' in fl:
                P.add('C04')
            if emptyish:
                P.add('C05')
    elif base in ('unexpected-exception', 'missing-exception', 'wrong-exception'):
        names = rest.split('|')
        exp = (ev.expected or '')
        involved = set(names) | set(exp[4:].split('|') if exp.startswith('exc:') else [])
        if S.T_REPEAT in involved:
            P.add('C09')
        if S.T_WIDTH in involved:
            P.add('C10')
        if S.T_EMPTYNEG in involved:
            P.add('C05')
        if 'quant' in fl and (S.T_TYPE in involved or S.T_VALUE in involved):
            P.add('C04')
        if base == 'unexpected-exception' and emptyish:
            P.add('C05')
        if base == 'unexpected-exception' and 'group' in fl and not raw:
            # a valid operand and a valid (or no) name, and no group at all: the expression does not get the group it spells out
            P.add('C08')
        if base == 'unexpected-exception' and 'quant' in fl and not raw:
            # valid operand, valid bounds, and no pattern at all: the quantifier does not match k repetitions
            P.add('C04')
        if base == 'unexpected-exception' and not P and not raw:
            # a valid composition was refused with some other library exception
            P.add('C02')
    elif base == 'mutated-operand':
        P.add('C20')
    if 'result-uncompilable' in fl:
        P.add('C03')
    return P


def sig_of(ev):
    from .shrink import symptom_class
    kinds = [f for f in ('quant', 'group', 'lookbehind', 'look', 'anchor', 'raw') if f in ev.flags]
    return '%s|%s' % (symptom_class(ev.symptom), kinds[0] if kinds else ev.op.lower())


TRIVIAL = re.compile(r"^(Lit\('[a-z]'\)|'[a-z]')$")


def nontrivial(ev):
    return not all(TRIVIAL.match(o) for o in ev.operands) or not ev.operands


def key_of(ev):
    h = hashlib.blake2b(repr((ev.op, ev.form, ev.operands)).encode('utf-8', 'surrogatepass'), digest_size=8)
    return h.hexdigest()


# ----------------------------------------------------------------------- workloads
def take(it, shard, nshards):
    for i, x in enumerate(it):
        if i % nshards == shard:
            yield x


def shard_rnd(seed, shard, salt=0):
    return random.Random((seed * 1000003 + shard) * 31 + salt)


def wl_c01(tier, seed, shard, nshards):
    yield from take(G.twin_programs(), shard, nshards)
    rnd = random.Random(seed)
    strings = G.hostile_strings(tier, rnd)
    for i, s in enumerate(strings):
        if i % nshards != shard:
            continue
        for name, prog in G.positions(s):
            prog['w'] = 'W1xW2'
            prog['pos'] = name
            prog['hole'] = s
            yield prog
    # revisit: every literal of the whole corpus once, and then once more after all the others have been through
    # the library in between (state that accumulates over distinct literals: escape caches, interning tables)
    corpus = G.hostile_strings('quick', random.Random(seed))
    for rnd_ in (0, 1):
        for s in corpus:
            if s:
                yield {'prog': G.PL(s) if rnd_ == 0 else G.OPN('cat', G.L(s), G.L('x')), 'form': 'c', 'w': 'W1rev', 'pos': 'revisit%d' % rnd_, 'hole': s}


def backref_programs():
    """numeric / named back references next to digits, quantifiers and groups (a reference must not absorb a neighbour)"""
    O, Lx = G.OPN, G.L
    for nm in (None, 'g7'):
        cap = O('cap', Lx('a'), name=nm)
        refs = [{'o': 'bref', 'r': 1}] + ([{'o': 'bref', 'r': nm}] if nm else [])
        for r in refs:
            for tail in (Lx('0'), Lx('12'), Lx('7x'), G.CLS('AnyDigit'), Lx('a'), O('opt', Lx('3')), G.FROM('0', '1'), G.BTW('0', '9'), Lx('٣')):
                for f in 'cmo':
                    yield {'prog': O('cat', cap, r, tail), 'form': f, 'w': 'Wref'}
                    yield {'prog': O('cat', cap, O('cat', r, tail)), 'form': f, 'w': 'Wref'}
                yield {'prog': O('cat', cap, O('enc', tail, r)), 'form': 'c', 'w': 'Wref'}
                yield {'prog': O('cat', cap, O('enc', r, tail)), 'form': 'm', 'w': 'Wref'}
                yield {'prog': O('cat', cap, O('alt', O('cat', r, tail), Lx('z'))), 'form': 'c', 'w': 'Wref'}
                yield {'prog': O('cat', cap, O('fol', r, tail)), 'form': 'c', 'w': 'Wref'}
            for tail in (Lx('0'), Lx('7x')):
                for pre in (Lx('\\'), Lx('q\\\\'), Lx('a\\')):
                    for f in 'cmo':
                        yield {'prog': O('cat', cap, pre, r, tail), 'form': f, 'w': 'Wref'}
                    yield {'prog': O('cat', cap, O('enc', tail, O('cat', pre, r))), 'form': 'c', 'w': 'Wref'}
            for e in (G.E(0), G.E(2), G.E(4)):
                yield {'prog': O('enc', O('cat', cap, Lx('-'), r), e), 'form': 'c', 'w': 'Wref'}
                yield {'prog': O('enc', O('cat', cap, Lx('-'), r), e), 'form': 'm', 'w': 'Wref'}
                yield {'prog': O('cat', e, O('cat', cap, r), left=True), 'form': 'm', 'w': 'Wref'}
                yield {'prog': O('enc', e, O('cat', cap, r)), 'form': 'c', 'w': 'Wref'}
                yield {'prog': O('enc', O('cat', cap, r), e, Lx('#')), 'form': 'c', 'w': 'Wref'}
            # a reference as the whole operand of Group / Capture, flagged or not (round 8: the flag of
            # Group(Backreference('n'), is_case_insensitive=True) must not be lost)
            for f in 'cm':
                for ci in (False, True):
                    yield {'prog': O('cat', cap, Lx('-'), O('grp', r, ci=ci)), 'form': f, 'w': 'Wref'}
                    yield {'prog': O('cat', cap, O('grp', O('cat', r, Lx('b')), ci=ci)), 'form': f, 'w': 'Wref'}
                    yield {'prog': O('cat', cap, O('opt', O('grp', r, ci=ci)), Lx('0')), 'form': f, 'w': 'Wref'}
                yield {'prog': O('cat', cap, Lx('-'), O('cap', r)), 'form': f, 'w': 'Wref'}
                yield {'prog': O('cat', cap, Lx('-'), O('cap', r, name='k2')), 'form': f, 'w': 'Wref'}
                yield {'prog': O('cat', cap, Lx('-'), O('grp', O('cap', r, name='k2'), ci=True)), 'form': f, 'w': 'Wref'}
            for q in (O('ex', r, n=2), O('plus', r), O('opt', r), O('q', r, n=1, m=3)):
                yield {'prog': O('cat', cap, q, Lx('0')), 'form': 'c', 'w': 'Wref'}
                yield {'prog': O('cat', cap, q), 'form': 'm', 'w': 'Wref'}


def many_groups_programs():
    """ten and more capturing groups, two-digit back references followed by digits"""
    O, Lx = G.OPN, G.L
    caps = [O('cap', Lx(chr(ord('a') + i))) for i in range(12)]
    for n in (10, 11, 12):
        for r in (10, n):
            for tail in (Lx('5'), Lx('0'), Lx('9'), Lx('17'), Lx('x'), G.CLS('AnyDigit')):
                for f in 'cmo':
                    yield {'prog': O('cat', *(caps[:n] + [{'o': 'bref', 'r': r}, tail])), 'form': f, 'w': 'Wref2'}
                yield {'prog': O('cat', O('cat', *caps[:n]), O('enc', tail, {'o': 'bref', 'r': r})), 'form': 'c', 'w': 'Wref2'}
                yield {'prog': O('cat', O('cat', *caps[:n]), O('cat', {'o': 'bref', 'r': r}, tail)), 'form': 'c', 'w': 'Wref2'}


def wl_c02(tier, seed, shard, nshards):
    yield from take(({k: v for k, v in it.items() if k not in ('hole', 'pos')} for it in G.twin_programs()), shard, nshards)
    yield from take(backref_programs(), shard, nshards)
    yield from take(many_groups_programs(), shard, nshards)
    yield from take(G.meta_operand_programs(), shard, nshards)
    yield from take(G.deep_programs(), shard, nshards)
    yield from take(G.many_operand_programs(), shard, nshards)
    yield from take(G.w3_depth1(), shard, nshards)
    r = shard_rnd(seed, shard, 1)
    if tier == 'quick':
        yield from G.w3_depth2(r, sample=14000 // nshards)
        yield from G.w4_random(r, 5000 // nshards)
    else:
        yield from take(G.w3_depth2(), shard, nshards)
        yield from G.w4_random(r, 100000 // nshards, depth=(4, 5, 6, 8), maxnodes=120)


def wl_c03(tier, seed, shard, nshards):
    yield from take(qseq_programs(), shard, nshards)
    yield from take(backref_programs(), shard, nshards)
    yield from take(many_groups_programs(), shard, nshards)
    yield from take(G.w_invalid(), shard, nshards)
    yield from take(G.w_stress(), shard, nshards)
    yield from take(G.raw_valid_programs(), shard, nshards)
    yield from take(G.meta_operand_programs(), shard, nshards * (3 if tier == 'quick' else 1))
    yield from take(G.deep_programs(), shard, nshards)
    yield from take(G.many_operand_programs(), shard, nshards)
    yield from take(G.big_bound_programs(), shard, nshards)
    yield from take(G.w3_depth1(), shard, nshards)
    r = shard_rnd(seed, shard, 2)
    k = 1 if tier == 'quick' else 10
    yield from G.w3_depth2(r, sample=6000 * k // nshards)
    yield from G.w4_random(r, 3000 * k // nshards, depth=(3, 4, 5) if tier == 'quick' else (4, 5, 6, 8),
                           maxnodes=40 if tier == 'quick' else 120)
    yield from take(G.w5_lattice('quick'), shard, nshards * (4 if tier == 'quick' else 1))


def qseq_programs():
    """one operand object, several quantifier calls in a row: a valid bound and then an invalid value that compares equal to it"""
    import fractions
    O = G.OPN
    ops = [G.PL('ab'), G.PL('a'), G.CLS('AnyDigit'), O('alt', G.L('x'), G.L('yz')), O('cap', G.L('a')), O('mas', G.L('a')), G.E(0)]
    seqs = [
        [('ex', 2, 'o'), ('ex', 2.0, 'c'), ('ex', 2.0, 'm')], [('ex', 2, 'c'), ('ex', 2.0, 'c')], [('ex', 1, 'm'), ('ex', True, 'c'), ('ex', 1.0, 'm')],
        [('ex', 0, 'c'), ('ex', False, 'c'), ('ex', 0.0, 'm')], [('q', 2, 2), ('ex', 2.0, 'c')], [('am', 0), ('ex', False, 'm')],
        [('q', 1, 3), ('q', 1.0, 3), ('q', 1, 3.0), ('q', True, 3)], [('al', 2), ('al', 2.0), ('al', True)], [('am', 3), ('am', 3.0), ('am', True)],
        [('ex', 3, 'r'), ('ex', 3, 'o'), ('ex', 3, 'm'), ('ex', 3, 'c')], [('q', 0, 1, False), ('q', 0, 1, True), ('q', 0, 1, False)],
        [('al', 1, False), ('al', 1, True)], [('q', 2, None, False), ('q', 2, None, True), ('q', 2, None, False)],
        [('ex', 2, 'm'), ('q', 2, 2), ('ex', 2, 'o')], [('am', None, False), ('am', None, True)],
    ]
    for x in ops:
        for calls in seqs:
            yield {'prog': {'o': 'qseq', 'x': [x], 'calls': [list(c) for c in calls]}, 'form': 'm', 'w': 'W5seq'}


def wl_c04(tier, seed, shard, nshards):
    yield from take(qseq_programs(), shard, nshards)
    yield from take(G.big_bound_programs(), shard, nshards)
    yield from take((it for it in G.deep_programs() if it['prog']['o'] in ('plus', 'q')), shard, nshards)
    yield from take(G.w5_lattice(tier), shard, nshards)
    r = shard_rnd(seed, shard, 3)
    n = 2000 if tier == 'quick' else 10000
    for _ in range(n // nshards):
        c = G.GenCtx(r, hostile=0.5)
        x = G.rand_prog(c, r.choice([1, 2, 3]), maxnodes=20)
        nn = r.choice(G.BOUNDS)
        m = r.choice([None, nn, nn + 1, nn + 3])
        yield {'prog': G.OPN('q', x, n=nn, m=m, g=r.random() < 0.5), 'form': r.choice('cm'), 'w': 'W5r', 'spellings': True}
        yield {'prog': G.OPN(r.choice(['opt', 'star', 'plus']), x, g=r.random() < 0.5), 'form': r.choice('cm'), 'w': 'W5r'}
        yield {'prog': G.OPN('ex', x, n=nn), 'form': r.choice('cmo'), 'w': 'W5r'}


def with_empties(node, rnd, p=0.25, depth=0):
    """inject empty sub-patterns (every spelling) at every depth"""
    if not isinstance(node, dict) or 'x' not in node:
        return node
    node = dict(node)
    xs = [with_empties(c, rnd, p, depth + 1) for c in node['x']]
    o = node['o']
    if o in ('cat', 'alt', 'enc') and rnd.random() < p:
        pos = rnd.randrange(len(xs) + 1)
        xs.insert(pos, G.E(rnd.randrange(12)))
    elif o in G_UNARY and rnd.random() < p * 0.5:
        xs[0] = G.E(rnd.randrange(12))
    elif o in ('fol', 'nfol', 'pre', 'npre', 'lenc', 'nlenc') and rnd.random() < p:
        xs[rnd.randrange(len(xs))] = G.E(rnd.randrange(12))
    node['x'] = xs
    return node


G_UNARY = {'opt', 'star', 'plus', 'q', 'ex', 'al', 'am', 'cap', 'grp', 'mas', 'mae', 'mals', 'male'}


def wl_c05(tier, seed, shard, nshards):
    empties = [G.E(k) for k in range(12)]
    basis = [G.L('a'), G.L('a|b'), G.L('$'), G.CLS('AnyLetter'), G.OPN('alt', G.L('x'), G.L('yz')),
             G.OPN('cap', G.L('a'), name='g1'), G.OPN('mas', G.L('a')), G.OPN('plus', G.L('ab')),
             G.OPN('cat', G.OPN('cap', G.L('ab')), G.L('-'), {'o': 'bref', 'r': 1}),
             G.OPN('cat', G.OPN('cap', G.L('a'), name='g2'), {'o': 'bref', 'r': 'g2'}), G.L('a\\'), G.L('7')]

    def det():
        for e in empties:
            for name, fn, forms in G.unary_templates():
                for f in forms:
                    yield {'prog': fn(e), 'form': f, 'w': 'W3e'}
            for name, fn, forms in G.binary_templates():
                for x in basis + empties[:4]:
                    for f in forms:
                        yield {'prog': fn(e, x), 'form': f, 'w': 'W3e'}
                        yield {'prog': fn(x, e), 'form': f, 'w': 'W3e'}
            for lit in ('a|', '|', '|b', 'x|y|', '\\|'):
                for f in 'cm':
                    yield {'prog': G.OPN('alt', G.L(lit), e), 'form': f, 'w': 'W3e'}
                    yield {'prog': G.OPN('alt', G.L('b'), G.L(lit), e), 'form': f, 'w': 'W3e'}
                    yield {'prog': G.OPN('alt', G.L(lit), e, G.L('c')), 'form': f, 'w': 'W3e'}
                    yield {'prog': G.OPN('cat', G.OPN('alt', G.L(lit), e), G.L('z')), 'form': f, 'w': 'W3e'}
            for x in basis:
                yield {'prog': G.OPN('cat', x, e, x), 'form': 'c', 'w': 'W3e'}
                yield {'prog': G.OPN('alt', x, e, x), 'form': 'c', 'w': 'W3e'}
                yield {'prog': G.OPN('alt', x, x, e), 'form': 'c', 'w': 'W3e'}
                yield {'prog': G.OPN('enc', x, e, x), 'form': 'c', 'w': 'W3e'}
                yield {'prog': G.OPN('enc', e, x), 'form': 'c', 'w': 'W3e'}
                yield {'prog': G.OPN('fol', x, e, x), 'form': 'c', 'w': 'W3e'}
                yield {'prog': G.OPN('nfol', x, x, e), 'form': 'c', 'w': 'W3e'}
    yield from take(det(), shard, nshards)
    yield from take(backref_programs(), shard, nshards)
    yield from take((it for it in G.many_operand_programs() if 'empty' in json.dumps(it['prog'])[:200000]), shard, nshards)
    r = shard_rnd(seed, shard, 5)
    n = (6000 if tier == 'quick' else 60000) // nshards
    for item in G.w4_random(r, n, p_empty=0.25):
        item['prog'] = with_empties(item['prog'], r)
        item['w'] = 'W4e'
        item['prune'] = True
        yield item


def wl_c08(tier, seed, shard, nshards):
    # restricted grammar: nesting of Capture/Group (named, unnamed, flagged) around lookarounds,
    # conditionals, backreferences and literals that contain ( ) ?: ?P< >
    lits = ['a', 'ab', '(', ')', '(a)', '?:', '(?:', '?P<', '(?P<n>', '>', 'a)', '(?i:', '?', '(?=', 'aB', 'x|y', '\\(', '\\']

    def det():
        inner = [G.L(s) for s in lits] + [G.OPN('alt', G.L('a'), G.L('bc')), G.CLS('AnyLetter'), G.OPN('fol', G.L('a'), G.L('b')),
                                           G.OPN('npre', G.E(0), G.L('b')), G.OPN('pre', G.E(0), G.L('b')), G.OPN('fol', G.E(0), G.L('b')),
                                           G.OPN('cond', G.L('a'), name='g9'), G.OPN('cond', G.L('a'), G.L('b'), name='g9'),
                                           {'o': 'bref', 'r': 'g9'}, {'o': 'bref', 'r': 1}, G.OPN('plus', G.L('ab')), G.E(0),
                                           G.OPN('mas', G.L('a')), {'o': 'wb'}, G.OPN('cat', G.L('a'), G.OPN('cap', G.L('b'), name='inner')),
                                           G.OPN('cat', G.OPN('cap', G.L('a'), name='in1'), G.OPN('cap', G.L('b'), name='in2')),
                                           G.OPN('cat', G.OPN('cap', G.L('a')), G.L('b'))]
        wraps = [lambda x: G.OPN('cap', x), lambda x: G.OPN('cap', x, name='n1'), lambda x: G.OPN('grp', x),
                 lambda x: G.OPN('grp', x, ci=True)]
        wraps2 = [lambda x: G.OPN('cap', x), lambda x: G.OPN('cap', x, name='n2'), lambda x: G.OPN('grp', x),
                  lambda x: G.OPN('grp', x, ci=True)]
        wraps3 = [lambda x: G.OPN('cap', x, name='n3'), lambda x: G.OPN('grp', x, ci=True), lambda x: G.OPN('cap', x),
                  lambda x: G.OPN('grp', x)]
        for x in inner:
            for w1 in wraps:
                for f in 'cm':
                    yield {'prog': w1(x), 'form': f, 'w': 'W8'}
                for w2 in wraps2:
                    for f in 'cm':
                        yield {'prog': w2(w1(x)), 'form': f, 'w': 'W8'}
                    for w3 in wraps3:
                        yield {'prog': w3(w2(w1(x))), 'form': 'c', 'w': 'W8'}
                        yield {'prog': w3(G.OPN('cat', w2(w1(x)), G.L('t'))), 'form': 'm', 'w': 'W8'}
                        yield {'prog': G.OPN('cat', w3(G.L('p')), w2(w1(x))), 'form': 'c', 'w': 'W8'}
    def renames():
        # naming / renaming touches only the outermost group and gives it exactly the new name: old and new names that
        # are prefixes / suffixes / case variants of each other, with a later reference to the new name
        pairs = [('id1', 'id'), ('id', 'id1'), ('total', 'tot'), ('__', '_'), ('_', '__'), ('N', 'n'), ('n', 'N'), ('n', 'n'),
                 ('a_b', 'a'), ('xn', 'n'), ('n1', 'n2'), ('é', 'e'), ('e', 'é'), ('NAME_2', 'NAME'),
                 ('né', 'w'), ('w', 'né'), ('größe', 'g'), ('_名前', 'n'), ('né', 'ne'), ('x٣', 'x3')]
        bodies = [G.L('a'), G.OPN('alt', G.L('a'), G.L('bc')), G.OPN('cat', G.L('a'), G.OPN('cap', G.L('b'), name='inner')), G.L('(?P<id>')]
        for old_, new_ in pairs:
            for b in bodies:
                inner = G.OPN('cap', b, name=old_)
                for f in 'cm':
                    yield {'prog': G.OPN('cap', inner, name=new_), 'form': f, 'w': 'W8n'}
                    yield {'prog': G.OPN('cat', G.OPN('cap', inner, name=new_), {'o': 'bref', 'r': new_}), 'form': f, 'w': 'W8n'}
                    yield {'prog': G.OPN('cap', G.OPN('grp', inner), name=new_), 'form': f, 'w': 'W8n'}
                    yield {'prog': G.OPN('cap', G.OPN('cap', inner), name=new_), 'form': f, 'w': 'W8n'}
                    yield {'prog': G.OPN('cat', G.OPN('cap', inner, name=new_), G.OPN('cond', G.L('y'), G.L('z'), name=new_)), 'form': f, 'w': 'W8n'}
    def refs():
        # every valid spelling of a group name must be usable for the group, for a reference to it and for a conditional on it
        for nm in ('a', 'A', '_', '__', '_a1', 'A_', 'a_b', 'Z9', 'z', 'aZ_09', 'x' * 40):
            for f in 'cm':
                yield {'prog': G.OPN('cat', G.OPN('cap', G.L('q'), name=nm), {'o': 'bref', 'r': nm}), 'form': f, 'w': 'W8r'}
                yield {'prog': G.OPN('cat', G.OPN('cap', G.L('q'), name=nm), G.OPN('cond', G.L('y'), name=nm)), 'form': f, 'w': 'W8r'}
                yield {'prog': G.OPN('cat', G.OPN('opt', G.OPN('cap', G.L('q'), name=nm)), G.OPN('cond', G.L('y'), G.L('n'), name=nm)), 'form': f, 'w': 'W8r'}
    def foreign():
        # groups the library can only wrap (other inline flags, atomic groups), handed over raw
        for r in ('(?s:.)', '(?-i:a)', '(?ims:aB)', '(?>a)', '(?s:(?i:a))', '(?>(?i:ab))', '(?s:x(?:b))', '(?m:^a)', '(?s:(a)b)'):
            x = G.RAW(r)
            for f in 'cm':
                yield {'prog': G.OPN('grp', x), 'form': f, 'w': 'W8f'}
                yield {'prog': G.OPN('grp', x, ci=True), 'form': f, 'w': 'W8f'}
                yield {'prog': G.OPN('cap', x), 'form': f, 'w': 'W8f'}
                yield {'prog': G.OPN('cap', x, name='fg'), 'form': f, 'w': 'W8f'}
                yield {'prog': G.OPN('cat', G.OPN('grp', x, ci=True), G.L('z')), 'form': f, 'w': 'W8f'}
                yield {'prog': G.OPN('plus', G.OPN('cap', x)), 'form': f, 'w': 'W8f'}
    yield from take(itertools.chain(det(), renames(), refs(), foreign(), (it for it in G.deep_programs() if it['prog']['o'] in ('cap', 'grp'))), shard, nshards)
    # references wrapped in Group / Capture together with the capture they point at (round 8)
    yield from take((it for it in backref_programs() if any(k in json.dumps(it['prog']) for k in ('"grp"', '"o": "cap", "x": [{"o": "bref"'))), shard, nshards)
    r = shard_rnd(seed, shard, 8)
    n = (5000 if tier == 'quick' else 50000) // nshards
    for _ in range(n):
        c = G.GenCtx(r, hostile=0.4)
        t = G.rand_prog(c, r.choice([2, 3, 4]), maxnodes=30)
        for _ in range(r.choice([1, 2, 3, 4, 6])):
            k = r.random()
            if k < 0.3:
                t = G.OPN('cap', t)
            elif k < 0.55:
                c.n += 1
                t = G.OPN('cap', t, name='g%d' % c.n)
            elif k < 0.8:
                t = G.OPN('grp', t, ci=r.random() < 0.4)
            else:
                t = G.OPN('cat', t, G.L(r.choice(lits)))
            t['f'] = r.choice('cm')
        yield {'prog': t, 'form': 'c', 'w': 'W8r', 'spellings': True}


def wl_c09(tier, seed, shard, nshards):
    rnd = random.Random(seed)
    strings = G.hostile_strings('quick', rnd)
    quants = [lambda x: G.OPN('star', x), lambda x: G.OPN('plus', x, g=False), lambda x: G.OPN('ex', x, n=2),
              lambda x: G.OPN('al', x, n=2), lambda x: G.OPN('am', x, n=3), lambda x: G.OPN('q', x, n=1, m=3),
              lambda x: G.OPN('am', x, n=None), lambda x: G.OPN('q', x, n=0, m=None),
              lambda x: G.OPN('opt', x), lambda x: G.OPN('ex', x, n=1), lambda x: G.OPN('am', x, n=1), lambda x: G.OPN('ex', x, n=0)]

    def det():
        for s in strings:
            for i, q in enumerate(quants):
                yield {'prog': q(G.L(s)), 'form': 'cm'[i % 2], 'w': 'W1q'}
            yield {'prog': G.OPN('ex', G.L(s), n=2), 'form': 'o', 'w': 'W1q'}
            yield {'prog': G.OPN('ex', G.L(s), n=1, rmul=True), 'form': 'o', 'w': 'W1q'}
        anchors = [lambda x: G.OPN('mas', x), lambda x: G.OPN('mae', x), lambda x: G.OPN('mals', x), lambda x: G.OPN('male', x),
                   lambda x: G.OPN('fol', x, G.L('z')), lambda x: G.OPN('pre', x, G.L('z')), lambda x: G.OPN('lenc', x, G.L('z')),
                   lambda x: G.OPN('fol', G.L('z'), x), lambda x: G.OPN('nfol', x, G.L('z')), lambda x: G.OPN('npre', G.L('z'), G.L('k')),
                   # "direct assertion instances incl. those applied to the empty pattern": the assertion text comes
                   # from the corpus ('!...', '=...', '<...' right behind '(?=' / '(?<=')
                   lambda x: G.OPN('fol', G.E(0), x), lambda x: G.OPN('pre', G.E(0), x), lambda x: G.OPN('lenc', G.E(0), x),
                   lambda x: G.OPN('nfol', G.E(0), x), lambda x: G.OPN('npre', G.E(0), x)]
        for j, s_ in enumerate(strings):
            for k, an in enumerate(anchors):
                q = quants[(j + k) % 8]
                yield {'prog': q(an(G.L(s_))), 'form': 'cm'[(j + k // 2) % 2], 'w': 'W1aq'}
            yield {'prog': G.OPN('star', G.OPN('male', G.OPN('alt', G.L('a'), G.L(s_)))), 'form': 'c', 'w': 'W1aq'}
            yield {'prog': G.OPN('plus', G.OPN('mas', G.OPN('cat', G.L(s_), G.L('b')))), 'form': 'm', 'w': 'W1aq'}
        for x in G.quant_operands() + G.leaf_basis():
            for q in quants:
                for f in 'cm':
                    yield {'prog': q(x), 'form': f, 'w': 'W5q'}
            for n in (0, 1, 2, 5):
                yield {'prog': G.OPN('ex', x, n=n), 'form': 'o', 'w': 'W5q'}
                yield {'prog': G.OPN('ex', x, n=n, rmul=True), 'form': 'o', 'w': 'W5q'}
    yield from take(det(), shard, nshards)
    yield from take((it for it in G.deep_programs() if it['prog']['o'] in ('plus', 'q')), shard, nshards)
    long_ = 'assertion-text-that-is-longer-than-any-small-window-0123456789-abcdefghijklmnopqrstuvwxyz'
    longs = [G.OPN('fol', G.L('x'), G.L(long_)), G.OPN('pre', G.L('x'), G.L(long_)), G.OPN('lenc', G.L('x'), G.L(long_)), G.OPN('mas', G.L(long_ * 3)),
             G.OPN('male', G.L(long_ * 3)), G.OPN('fol', G.L(long_ * 2), G.L('z')), G.OPN('fol', G.L('x'), G.MT('IPv4')), G.OPN('pre', G.L('x'), G.L('ab'), G.L(long_)),
             G.OPN('nfol', G.L('x'), G.L(long_)), G.OPN('npre', G.L('x'), G.L(long_)), G.OPN('male', G.MT('Word')), G.OPN('mae', G.MT('Integer')),
             G.OPN('fol', G.MT('Date'), G.L('z')), G.OPN('male', G.OPN('cat', {'o': 'wb'}, G.L('ab'))), G.OPN('mae', G.OPN('npre', G.L('ab'), G.L('c'))),
             G.OPN('fol', G.OPN('cat', {'o': 'nwb'}, G.L('ab')), G.L('z')), G.OPN('mas', G.OPN('nfol', G.L('ab'), G.L('c')))]
    yield from take(({'prog': q(x), 'form': f, 'w': 'W9long'} for x in longs for q in quants for f in 'cm'), shard, nshards)
    # a literal parenthesis made optional / repeated, followed by what then reads like a lookaround opener
    looks = []
    for opn in ('opt', 'star', 'plus'):
        for tail in ('=)', '!)', '<=)', '<!)', '=a)', ':)', 'P<n>)', '#)', '(1)a)'):
            looks.append(G.OPN('cat', G.OPN(opn, G.L('(')), G.L(tail)))
            looks.append(G.OPN('cat', G.L('x'), G.OPN(opn, G.L('(')), G.L(tail)))
            looks.append(G.OPN('cat', G.OPN(opn, G.L('(')), G.L(tail[:-1]), G.CLS('AnyDigit'), G.L(')')))
    yield from take(({'prog': q(x), 'form': f, 'w': 'W9paren'} for x in looks for q in quants for f in 'cm'), shard, nshards)
    r = shard_rnd(seed, shard, 9)
    n = (3000 if tier == 'quick' else 40000) // nshards
    for _ in range(n):
        c = G.GenCtx(r, hostile=0.6)
        x = G.rand_prog(c, r.choice([1, 2, 3]), maxnodes=20)
        q = r.choice(quants)
        yield {'prog': q(x), 'form': r.choice('cm'), 'w': 'W4q'}


def lookbehind_operands():
    Lx = G.L
    O = G.OPN
    return [Lx('a'), Lx('ab'), Lx('a?'), Lx('a+'), Lx('a*'), Lx('{2}'), Lx('a{2,3}'), Lx('?'), Lx('(?'), Lx('x|yz'), Lx('\\?'),
            Lx('\\'), Lx('\\\\+'), Lx('(a)?'), Lx('\n'),
            G.FROM('?'), G.FROM('+', '-'), G.FROM('*', 'a'), G.FROM('{', '}'), G.FROM('?', neg=True), G.CLS('AnyPunctuation'),
            G.CLS('Any'), G.CLS('AnyDigit'), G.TOK('Backslash'), G.BTW('*', '?'),
            O('ex', Lx('ab'), n=3), O('ex', G.CLS('AnyDigit'), n=2), O('q', Lx('a'), n=2, m=2), O('ex', Lx('a'), n=1),
            O('opt', Lx('a')), O('star', Lx('a')), O('plus', Lx('ab'), g=False), O('q', Lx('a'), n=1, m=2), O('al', Lx('a'), n=2),
            O('am', Lx('a'), n=2), O('q', Lx('a'), n=0, m=1),
            O('alt', Lx('a'), Lx('b')), O('alt', Lx('ab'), Lx('cd')), O('alt', Lx('a'), Lx('bc')), O('alt', Lx('abc'), Lx('d'), Lx('ef')),
            O('alt', Lx('ab'), O('alt', Lx('cd'), Lx('ef'))), O('alt', Lx('ab'), O('alt', Lx('cd'), Lx('e'))),
            O('alt', O('ex', Lx('a'), n=2), Lx('bb')), O('alt', O('opt', Lx('a')), Lx('b')),
            O('cat', Lx('a'), O('opt', Lx('b'))), O('cat', Lx('a'), O('ex', Lx('b'), n=2)), O('cat', O('alt', Lx('a'), Lx('b')), Lx('c')),
            O('cat', O('alt', Lx('a'), Lx('bc')), Lx('d')), O('grp', O('opt', Lx('a'))), O('cap', Lx('ab')), O('cap', O('alt', Lx('a'), Lx('b'))),
            O('cap', O('alt', Lx('a'), Lx('bb')), name='w1'), O('grp', Lx('ab'), ci=True),
            O('ex', O('alt', Lx('a'), Lx('b')), n=2), O('ex', O('alt', Lx('a'), Lx('bc')), n=2), O('opt', O('ex', Lx('a'), n=2)),
            O('fol', Lx('a'), Lx('bcd')), O('nfol', Lx('a'), O('star', Lx('b'))), O('pre', Lx('a'), Lx('b')), O('npre', Lx('ab'), Lx('c')),
            O('fol', G.E(0), O('plus', Lx('a'))), O('mas', Lx('a')), O('male', Lx('ab')), {'o': 'wb'}, O('cat', {'o': 'wb'}, Lx('a')),
            O('star', {'o': 'wb'}), O('opt', O('fol', G.E(0), Lx('a'))), O('cat', Lx('a'), O('star', {'o': 'wb'})),
            G.E(0), G.E(4), G.RAW('a|b'), G.RAW('a+'), {'o': 'bref', 'r': 1},
            O('cat', O('cap', Lx('a'), name='w2'), {'o': 'bref', 'r': 'w2'}),
            O('ex', O('cat', Lx('a'), O('opt', Lx('b'))), n=2), O('cat', O('ex', G.CLS('AnyLetter'), n=3), G.FROM('+')),
            G.PL('-'), G.PL('minus'), G.PL('ab'), G.PL('c'), G.CLS('AnyLetter'),
            O('alt', G.PL('-'), G.PL('minus'), f='m'), O('alt', G.PL('ab'), G.PL('c'), f='m'), O('alt', G.PL('ab'), G.PL('c'), f='m', left=True),
            O('alt', G.CLS('AnyLetter'), G.PL('ab'), f='m'), O('cat', O('alt', G.PL('-'), G.PL('minus'), f='m'), G.PL('c'), f='m'),
            O('alt', G.PL('ab'), G.PL('-'), G.PL('minus'), f='m'), O('alt', G.PL('-'), G.PL('c'), f='m'),
            # wide but fixed (beyond small-int / small-buffer limits) and wide but variable
            O('ex', G.CLS('AnyDigit'), n=255), O('ex', G.CLS('AnyDigit'), n=256), O('ex', G.CLS('AnyDigit'), n=257), O('ex', G.CLS('AnyDigit'), n=300),
            Lx('k' * 256), Lx('k' * 257), Lx('ab' * 500), O('ex', O('alt', Lx('ab'), Lx('cd')), n=150), O('ex', O('ex', O('ex', Lx('a'), n=7), n=7), n=7),
            # a class that ends in an escaped backslash, a variable part, another class
            O('cat', G.BTW('A', '\\'), O('opt', Lx('x')), G.CLS('AnyLetter')), O('cat', G.FROM('a', '\\'), O('star', Lx('x')), G.FROM('b', 'c')),
            O('cat', G.FROM('\\'), O('opt', Lx('x')), G.FROM('[')), O('cat', G.BTW('A', '\\'), Lx('x'), G.CLS('AnyLetter')), O('cat', G.TOK('Backslash'), O('plus', Lx('x')), G.FROM(']')),
            O('q', G.CLS('AnyDigit'), n=256, m=257), O('alt', Lx('k' * 257), Lx('j' * 258)), O('alt', Lx('k' * 257), Lx('j' * 257)), O('ex', Lx('a'), n=65536),
            ]


def wl_c10(tier, seed, shard, nshards):
    yield from take(({k: v for k, v in it.items() if k not in ('hole', 'pos')} for it in G.twin_programs()), shard, nshards)
    ops = lookbehind_operands()
    matches = [G.L('x'), G.E(0), G.OPN('alt', G.L('x'), G.L('yz')), G.OPN('plus', G.L('x')), G.OPN('cap', G.L('x'))]

    def det():
        for a in ops:
            for lk in ('pre', 'npre', 'lenc', 'nlenc'):
                for mt in matches:
                    for f in 'cm':
                        yield {'prog': G.OPN(lk, mt, a), 'form': f, 'w': 'W10'}
                yield {'prog': G.OPN(lk, G.L('x'), G.L('k'), a), 'form': 'c', 'w': 'W10'}
                yield {'prog': G.OPN(lk, G.L('x'), a, G.L('k')), 'form': 'm', 'w': 'W10'}
    yield from take(det(), shard, nshards)
    r = shard_rnd(seed, shard, 10)
    n = (4000 if tier == 'quick' else 60000) // nshards
    for _ in range(n):
        c = G.GenCtx(r, hostile=0.5, refs=False)
        a = G.rand_prog(c, r.choice([0, 1, 2, 3]), maxnodes=15)
        if r.random() < 0.4:
            a = G.OPN('alt', a, G.rand_prog(c, r.choice([0, 1]), maxnodes=15))
        if r.random() < 0.3:
            a = G.OPN('ex', a, n=r.choice([1, 2, 3]))
        mt = G.rand_prog(c, r.choice([0, 1, 2]), maxnodes=10)
        yield {'prog': G.OPN(r.choice(['pre', 'npre', 'lenc', 'nlenc']), mt, a), 'form': r.choice('cm'), 'w': 'W10r'}


def wl_c20(tier, seed, shard, nshards):
    yield from take(G.w3_depth1(True), shard, nshards)
    r = shard_rnd(seed, shard, 20)
    yield from G.w4_random(r, (3000 if tier == 'quick' else 30000) // nshards)


WORKLOADS = {'C01': wl_c01, 'C02': wl_c02, 'C03': wl_c03, 'C04': wl_c04, 'C05': wl_c05, 'C08': wl_c08,
             'C09': wl_c09, 'C10': wl_c10, 'C20': wl_c20}


# ----------------------------------------------------------------------- pruning (C05 metamorphic law)
def prune_empties(node):
    """rebuild a program with its empty sub-patterns removed according to the C05 laws;
    returns None where the law does not say what the pruned expression is."""
    o = node['o']
    if o == 'empty':
        return 'EMPTY'
    if 'x' not in node:
        return node
    xs = [prune_empties(c) for c in node['x']]
    if any(c is None for c in xs):
        return None
    n = dict(node)
    if o == 'cat':
        ys = [c for c in xs if c != 'EMPTY']
        if not ys:
            return 'EMPTY'
        if len(ys) == 1:
            return ys[0] if ys[0]['o'] not in ('lit',) else G.PL(ys[0]['s'])
        n['x'] = ys
        return n
    if o == 'alt':
        if xs[0] == 'EMPTY':
            return None if any(c != 'EMPTY' for c in xs) else 'EMPTY'
        ys = [c for c in xs if c != 'EMPTY']
        if len(ys) == 1:
            return ys[0] if ys[0]['o'] not in ('lit',) else G.PL(ys[0]['s'])
        n['x'] = ys
        return n
    if o == 'enc':
        ys = [xs[0]] + [c for c in xs[1:] if c != 'EMPTY']
        if ys[0] == 'EMPTY':
            # Enclose(empty, e) = e e
            if len(ys) == 1:
                return 'EMPTY'
            return None
        if len(ys) == 1:
            return ys[0] if ys[0]['o'] not in ('lit',) else G.PL(ys[0]['s'])
        n['x'] = ys
        return n
    if o in G_UNARY:
        if xs[0] == 'EMPTY':
            if o in ('mas', 'mae', 'mals', 'male'):
                return None
            return 'EMPTY'
        n['x'] = xs
        return n
    if o in ('fol', 'pre', 'lenc'):
        ys = [xs[0]] + [c for c in xs[1:] if c != 'EMPTY']
        if ys[0] == 'EMPTY':
            return None
        if len(ys) == 1:
            return ys[0] if ys[0]['o'] not in ('lit',) else G.PL(ys[0]['s'])
        n['x'] = ys
        return n
    if any(c == 'EMPTY' for c in xs):
        return None
    n['x'] = xs
    return n


# ----------------------------------------------------------------------- shard run loop
def benign_like(s):
    return 'k' * max(1, len(s))


def replace_hole(node, hole, repl):
    if isinstance(node, dict):
        if node.get('o') in ('lit', 'plit') and node.get('s') == hole:
            d = dict(node)
            d['s'] = repl
            return d
        return {k: replace_hole(v, hole, repl) for k, v in node.items()}
    if isinstance(node, list):
        return [replace_hole(i, hole, repl) for i in node]
    return node


def run_case(I, check, item):
    """evaluate one program (all its spellings) under the monitors.
    returns list of violations [(props, event-json)], number of judged events."""
    from .interp import show
    from . import canon as C
    out = []
    prog = item['prog']
    forms = [item.get('form', 'c')]
    texts = {}
    progs = [(forms[0], prog)]
    if item.get('spellings'):
        base = G.strip_forms(prog)
        progs += [('c', base), ('m', base), ('o', base)]
    nev = 0
    for form, p in progs:
        status, events, text = I.run_program(p, form)
        nev += len(events)
        if status == 'done':
            texts[form + str(len(texts))] = text
        for ev in events:
            if ev.verdict == 'viol':
                P = props_of(ev)
                out.append((P, ev, form, p))
    # spelling equivalence (real vs real): all spellings that completed must agree
    if len(texts) > 1 and not out:
        keys = set()
        for t in texts.values():
            pr = C.parse(t)
            if not pr.error:
                keys.add(pr.key)
        I.stats['spelling-groups-compared'] += 1
        if len(keys) > 1:
            I.stats['spelling-trees-differ(probes-agree)'] += 1
    # C05 metamorphic law: program with empties pruned must give an equal canonical tree (real vs real)
    if item.get('prune') and not out and texts:
        pruned = prune_empties(G.strip_forms(prog))
        if pruned is not None and pruned != 'EMPTY' and isinstance(pruned, dict):
            st2, ev2, t2 = I.run_program(pruned, forms[0] if forms[0] != 'o' else 'c')
            nev += len(ev2)
            st1, ev1, t1 = I.run_program(G.strip_forms(prog), forms[0] if forms[0] != 'o' else 'c')
            if st1 == 'done' and st2 == 'done' and not any(e.verdict in ('viol', 'unspec') for e in ev1 + ev2):
                I.stats['prune-compared'] += 1
                k1, k2 = C.parse(t1), C.parse(t2)
                if not k1.error and not k2.error and k1.key != k2.key:
                    # both agreed with their own reference; differing trees are then decided by probes
                    from . import judge as J
                    c1, _ = C.compiles(t1)
                    c2, _ = C.compiles(t2)
                    for tx in J.probe_texts(S.Raw(t1), k2.tree, I.rnd):
                        if J.behaviour(c1, tx) != J.behaviour(c2, tx):
                            ev = ev1[-1]
                            I.violation(ev, 'semantic:prune-diff', 'with empties %r / pruned %r differ on %r' % (t1, t2, tx))
                            ev.flags.add('empty-operand')
                            out.append(({'C05'}, ev, forms[0], prog))
                            break
        elif pruned == 'EMPTY' and texts:
            I.stats['prune-compared'] += 1
            t = list(texts.values())[0]
            pt = C.parse(t)
            if pt.error or pt.canon != ():
                st1, ev1, t1 = I.run_program(G.strip_forms(prog), 'c')
                if st1 == 'done' and ev1 and not any(e.verdict in ('viol', 'unspec') for e in ev1):
                    ev = ev1[-1]
                    I.violation(ev, 'semantic:prune-diff', 'all-empty expression gave %r' % t1)
                    ev.flags.add('empty-operand')
                    out.append(({'C05'}, ev, 'c', prog))
    return out, nev


def run_shard(ctx):
    if ctx.get('engine') in ('w9', 'w10'):
        return run_wrapped(ctx)
    if ctx.get('engine') == 'cls':
        from . import cls
        return cls.run_shard(ctx)
    if ctx.get('engine') == 'meta':
        from . import meta
        return meta.run_shard(ctx)
    from .interp import Interp, show
    check, tier, seed, shard, nshards = ctx['check'], ctx['tier'], ctx['seed'], ctx['shard'], ctx['nshards']
    I = Interp(seed=seed * 7919 + shard, nprobes=10 if tier == 'quick' else 16)
    PI = None
    pool_every = {'C08': 1, 'C10': 1, 'C04': 2, 'C09': 2, 'C05': 2}.get(check, 4)
    if check != 'C01':
        from .hist import PoolInterp
        PI = PoolInterp(seed=seed * 7919 + shard + 1, nprobes=10)
    wl = WORKLOADS[check](tier, seed, shard, nshards)
    t0 = time.time()
    budget = ctx.get('budget', 50 if tier == 'quick' else 420)
    keys = set()
    viols = []
    nviol = collections.Counter()
    other = collections.Counter()
    samples = []
    ncases = 0
    evaluations = 0
    truncated = False
    for item in wl:
        if time.time() - t0 > budget:
            truncated = True
            break
        ncases += 1
        res, nev = run_case(I, check, item)
        evaluations += nev
        for ev in I.events:
            if nontrivial(ev):
                keys.add(key_of(ev))
        if ncases % 97 == 1 and len(samples) < 6 and I.events:
            ev = I.events[-1]
            samples.append({'program': show(item['prog']), 'form': item.get('form'), 'workload': item.get('w'),
                            'emitted': ev.real, 'reference': ev.ref, 'verdict': ev.verdict})
        if PI is not None and (ncases % pool_every == 0):
            # the same program once more, built from a pool of shared sub-objects that earlier programs of this
            # shard have already used (compiled, matched with, used as operands): reuse must not change anything
            stp, evp, _ = PI.run_program(G.strip_forms(item['prog']) if item.get('spellings') else item['prog'], item.get('form', 'c'))
            evaluations += len(evp)
            for ev in evp:
                if ev.verdict == 'viol':
                    ev.flags.add('reused-objects')
                    res.append((props_of(ev), ev, item.get('form', 'c'), item['prog']))
        attributed = False
        for P, ev, form, p in res:
            if check == 'C01':
                # differential attribution: the violation is the literal's doing iff the same
                # program over a benign literal of the same length is clean
                hole = item.get('hole')
                if hole is None:
                    continue
                if attributed:
                    continue
                bp = replace_hole(p, hole, benign_like(hole))
                st, evs, _ = I.run_program(bp, form)
                if any(e.verdict == 'viol' for e in evs):
                    other['not-the-literal:' + (ev.symptom or '')] += 1
                    continue
                P = {'C01'}
                attributed = True
            if check in P:
                sig = sig_of(ev)
                nviol[sig] += 1
                if nviol[sig] <= 3 and len(viols) < 60:
                    viols.append({'property': check, 'sig': sig, 'symptom': ev.symptom, 'detail': ev.detail,
                                  'event': ev.json(), 'case': {'kind': 'dsl', 'prog': p, 'form': form,
                                                               'hole': item.get('hole'), 'pos': item.get('pos'),
                                                               'prune': item.get('prune', False)},
                                  'show': show(p)})
            else:
                other['|'.join(sorted(P)) + ':' + (ev.symptom or '').split(':')[0]] += 1
    return {
        'evaluations': evaluations, 'cases': ncases, 'keys': sorted(keys), 'violations': viols,
        'viol_counts': dict(nviol), 'other_property_violations': dict(other), 'stats': dict(I.stats),
        'by_op': dict(I.by_op), 'samples': samples, 'monitor_errors': I.monitor_errors[:5],
        'n_monitor_errors': len(I.monitor_errors), 'timeouts': I.stats.get('timeout', 0), 'truncated': truncated,
        'wall': time.time() - t0,
    }


def replay(case, check, seed=0):
    """re-execute one recorded case; returns list of (props, event json) violations for `check`"""
    if case.get('kind') in ('w9', 'w10'):
        return replay_wrapped(case, check, seed)
    if case.get('kind') == 'cls':
        from . import cls
        return cls.replay(case, check, seed)
    if case.get('kind') in ('int', 'int-invalid', 'dec', 'dec-invalid', 'dec-glue', 'dec-unbounded', 'numeral', 'numeral-invalid', 'word', 'ipv4', 'ipv6', 'date', 'date-invalid', 'date-invalid-late', 'defaults', 'big-bounds', 'prefix-affix', 'date-lists'):
        from . import meta
        return [v for v in meta.replay(case, check, seed) if meta.is_c03(v['symptom'])]
    from .interp import Interp
    I = Interp(seed=seed, nprobes=16)
    item = {'prog': case['prog'], 'form': case.get('form', 'c'), 'hole': case.get('hole'), 'prune': case.get('prune', False)}
    res, _ = run_case(I, check, item)
    out = []
    for P, ev, form, p in res:
        if check == 'C01' and case.get('hole') is not None:
            bp = replace_hole(p, case['hole'], benign_like(case['hole']))
            st, evs, _ = I.run_program(bp, form)
            if any(e.verdict == 'viol' for e in evs):
                continue
            P = {'C01'}
        if check in P:
            out.append({'symptom': ev.symptom, 'detail': ev.detail, 'event': ev.json(),
                        'sig': sig_of(ev)})
    return out


def candidates(case):
    """smaller variants of a recorded DSL case (for the shrinker)"""
    if case.get('kind') == 'cls':
        from . import cls
        return cls.candidates(case)
    if case.get('kind') != 'dsl':
        return []
    from .shrink import dsl_candidates
    out = []
    for p in dsl_candidates(case['prog']):
        c = dict(case)
        c['prog'] = p
        out.append(c)
    hole = case.get('hole')
    if hole and len(hole) > 1:
        for i in range(len(hole)):
            nh = hole[:i] + hole[i + 1:]
            c = dict(case)
            c['hole'] = nh
            c['prog'] = replace_hole(case['prog'], hole, nh)
            out.append(c)
    if case.get('form') != 'c':
        c = dict(case)
        c['form'] = 'c'
        out.append(c)
    return out


METACLASS = {'$': 'dollar', '^': 'caret', '(': 'paren', ')': 'paren', '[': 'bracket', ']': 'bracket', '{': 'brace',
             '}': 'brace', '?': 'quantchar', '+': 'quantchar', '*': 'quantchar', '.': 'dot', '|': 'bar', '/': 'slash',
             '\\': 'backslash', '\n': 'newline', '-': 'dash'}


def features(case, violation):
    """mechanism features of a (shrunk) witness: never a hash, a seed or the literal text itself"""
    if case.get('kind') == 'cls':
        from . import cls
        return cls.features(case, violation)
    if case.get('kind') != 'dsl':
        return ['kind:' + str(case.get('kind'))]
    tags = set()
    ev = violation.get('event', {})
    tags.add('op:' + str(ev.get('op')))
    for f in ev.get('flags', []):
        tags.add('flag:' + f)

    def walk(n, depth, path):
        if not isinstance(n, dict):
            return
        o = n.get('o')
        tags.add('has:' + str(o))
        if o in ('lit', 'plit', 'raw'):
            s = n['s']
            for i, ch in enumerate(s):
                c = METACLASS.get(ch)
                if c:
                    pos = 'only' if len(s) == 1 else 'first' if i == 0 else 'last' if i == len(s) - 1 else 'inner'
                    tags.add('lit:%s@%s' % (c, pos))
            if len(s) > 1:
                tags.add('lit:multi')
        if o == 'from':
            for ch in n['cs']:
                c = METACLASS.get(ch)
                if c:
                    tags.add('cls:' + c)
        if o == 'empty':
            tags.add('has:empty')
        for c in n.get('x', []):
            walk(c, depth + 1, path + [o])
        if 'x' in n and n['x']:
            tags.add('edge:%s>%s' % (o, n['x'][0].get('o') if isinstance(n['x'][0], dict) else '?'))
    walk(case.get('prog'), 0, [])
    return sorted(tags)


# ----------------------------------------------------------------------- wrapper-driven workloads (W9, W10)
WRAPPED_FOR = {'C02', 'C03', 'C04', 'C05', 'C08', 'C09', 'C10'}


def plan(check, tier, seed, tp):
    nsh = tp['nshards']
    jobs = []
    if check in WRAPPED_FOR:
        if check in ('C02', 'C03') or tier == 'thorough':
            # the repository's own tests under the monitors (~30 s, started first): every change in the two broadest
            # checks, all seven in thorough
            jobs.append(('w10', {'engine': 'w10', 'shard': 0, 'nshards': 1}, 0))
        jobs.append(('w9', {'engine': 'w9', 'shard': 0, 'nshards': 1}, 0))
    jobs += [('shard%02d' % sh, {'shard': sh, 'nshards': nsh}, tp['hashseeds'][sh % len(tp['hashseeds'])]) for sh in range(nsh)]
    if check == 'C03':
        # "class algebra, meta patterns ... for every interpreter hash seed": the class and meta engines
        # run their workloads under the C03 oracle (crash / uncompilable / export)
        hss = [0, 1] if tier == 'quick' else list(range(8))
        for h in hss:
            for p in range(2):
                jobs.append(('cls.p%d.h%d' % (p, h), {'engine': 'cls', 'part': p, 'nparts': 2, 'scan': False}, h))
        jobs.append(('cls.inj', {'engine': 'cls', 'part': 0, 'nparts': 2, 'inject': seed * 100 + 1}, 0))
        for sh in range(2):
            jobs.append(('meta%d' % sh, {'engine': 'meta', 'shard': sh, 'nshards': 2}, 0))
    return jobs


def run_wrapped(ctx):
    from . import wrapload
    check = ctx['check']
    eng = ctx['engine']
    s = wrapload.run_w9(ctx['seed'], ctx['tier']) if eng == 'w9' else wrapload.run_w10()
    viols, nviol, other = [], collections.Counter(), collections.Counter()
    for P, ev in s.get('violations', []):
        if check in P:
            sig = '%s|%s|%s' % (':'.join((ev.get('symptom') or '').split(':')[:2]), ev.get('op'), eng)
            nviol[sig] += 1
            if nviol[sig] <= 2:
                viols.append({'property': check, 'sig': sig, 'symptom': ev.get('symptom'), 'detail': ev.get('detail'), 'event': ev,
                              'case': ev.get('case') or {'kind': eng}, 'show': '%s %s -> %r' % (ev.get('op'), ev.get('operands'), ev.get('real'))})
        else:
            other['|'.join(P) + ':' + (ev.get('symptom') or '').split(':')[0]] += 1
    stats = dict(s.get('verdicts', {}))
    if eng == 'w10' and (s.get('pytest_returncode') not in (0, None) or s.get('tests_failed')):
        # with the monitors installed the suite must behave exactly as without them (transparency)
        stats['w10-tests-not-green'] = 1
    return {
        'evaluations': s.get('boundary_events', 0), 'cases': s.get('meta_constructor_calls', s.get('tests_collected') or 0), 'keys': [],
        'violations': viols, 'viol_counts': dict(nviol), 'other_property_violations': dict(other), 'stats': stats,
        'by_op': {}, 'samples': [], 'monitor_errors': s.get('monitor_errors', []), 'timeouts': 0, 'truncated': False,
        'extra': {eng + '_boundary_events': s.get('boundary_events', 0), eng + '_nested_events': s.get('nested_events', 0),
                  eng + '_api_calls_checked': s.get('api_calls_checked', 0),
                  eng + '_units': s.get('meta_constructor_calls', s.get('tests_collected') or 0)},
    }


def replay_wrapped(case, check, seed):
    import json as _json, os, subprocess, sys, tempfile
    from . import VERIF_DIR
    if case['kind'] == 'w10':
        from . import wrapload
        s = wrapload.run_w10()
        return [{'symptom': ev.get('symptom'), 'detail': ev.get('detail'), 'event': ev, 'sig': 'w10'} for P, ev in s.get('violations', []) if check in P]
    code = ('import json,sys\nfrom rv import wrap\nfrom rv import meta as MT\nwrap.install(api=False)\nc=json.loads(sys.argv[1])\n'
            'try:\n    getattr(MT.ME,c["ctor"])(*c["args"],**c.get("kw",{}))\nexcept Exception as e:\n    pass\n'
            'print(json.dumps(wrap.violations,default=str))')
    r = subprocess.run([sys.executable, '-W', 'ignore', '-c', code, _json.dumps(case)], capture_output=True, text=True, cwd=VERIF_DIR, timeout=120)
    try:
        vs = _json.loads(r.stdout.strip().splitlines()[-1])
    except Exception:
        return []
    return [{'symptom': ev.get('symptom'), 'detail': ev.get('detail'), 'event': ev, 'sig': 'w9'} for P, ev in vs if check in P]
