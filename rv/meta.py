"""Meta patterns (C15-C19): numeric / grammar reference models judging every matching call on
Integer, Decimal, Numeral, Word*, IPv4, IPv6 and Date objects.  (DESIGN.md section 4.)

A case is a JSON dict {'kind': <family>, ...constructor parameters..., 'texts'/'cands': [...]};
the monitor builds the object, asks it the public questions and compares with the model,
three-valued: MUST match / MUST NOT / UNSPECIFIED (counted, never judged)."""
import collections
import hashlib
import ipaddress
import itertools
import random
import re
import signal
import time

from . import canon as C
from . import shadow as S
from .interp import Pregex, LIBEXC

from pregex.meta import essentials as ME  # noqa: E402

T_TYPE, T_VALUE = 'InvalidArgumentTypeException', 'InvalidArgumentValueException'
WORD = set('abcdefghijklmnopqrstuvwxyzABCDEFGHIJKLMNOPQRSTUVWXYZ0123456789_')
LETTER_ = WORD - set('0123456789')


class Mon:
    def __init__(self, check):
        self.check = check
        self.n = 0
        self.unspec = 0
        self.viols = []
        self.counts = collections.Counter()
        self.tokens = set()

    def expect(self, ok, symptom, detail, what):
        self.n += 1
        self.counts[what] += 1
        # distinct judged questions (the detail text names object, method and input)
        self.tokens.add(hash(detail))
        if not ok:
            self.viols.append({'symptom': symptom, 'detail': detail})

    def build(self, what, thunk, expect_exc=None):
        """construct; returns object or None. expect_exc: tuple of acceptable exception names or None."""
        self.n += 1
        self.counts['ctor:' + what] += 1
        try:
            obj = thunk()
        except LIBEXC as e:
            name = type(e).__name__
            if expect_exc and name in expect_exc:
                return None
            self.viols.append({'symptom': 'meta:unexpected-exception:' + name if not expect_exc else 'meta:wrong-exception:' + name,
                               'detail': '%s raised %s%s' % (what, name, (', expected ' + '|'.join(expect_exc)) if expect_exc else '')})
            return None
        except RecursionError:
            self.viols.append({'symptom': 'crash:RecursionError', 'detail': what})
            return None
        except Exception as e:
            self.viols.append({'symptom': 'crash:' + type(e).__name__, 'detail': '%s: %s' % (what, str(e)[:100])})
            return None
        if expect_exc:
            self.viols.append({'symptom': 'meta:missing-exception:' + '|'.join(expect_exc), 'detail': '%s returned %r' % (what, str(obj)[:80])})
            return None
        if C.parse(str(obj)).error:
            self.viols.append({'symptom': 'uncompilable:' + C.parse(str(obj)).error, 'detail': '%s -> %r' % (what, str(obj)[:200])})
            return None
        return Watched(self, obj, what)


class Watched:
    """a meta object under observation: every matching call is also compared with what a fresh re.compile of the
    object's own pattern gives (so that a model verdict is never taken from an answer the pattern does not give), a
    third of the objects is compiled before use, and has_match / is_exact_match are asked about the same texts in
    both orders"""

    def __init__(self, M, obj, what):
        self._M, self._o, self._what = M, obj, what
        self._text = str(obj)
        self._c = re.compile(self._text, re.M | re.S)
        self._calls = 0
        h = int(hashlib.blake2b(self._text.encode('utf-8', 'surrogatepass'), digest_size=2).hexdigest(), 16)
        if h % 3 == 0:
            try:
                obj.compile()
            except Exception as e:
                M.viols.append({'symptom': 'crash:' + type(e).__name__, 'detail': '%s.compile()' % what})

    def __str__(self):
        return self._text

    # used as an operand, the object stands for itself (what is built from it is not under observation)
    def __add__(self, other):
        return self._o + (other._o if isinstance(other, Watched) else other)

    def __radd__(self, other):
        return (other._o if isinstance(other, Watched) else other) + self._o

    def __getattr__(self, name):
        return getattr(self._o, name)

    def _disagree(self, method, text, got, want):
        self._M.viols.append({'symptom': 'meta:disagrees-with-own-pattern', 'detail': '%s.%s(%r) is %r, its own pattern %r gives %r%s' % (
            self._what, method, text[:80], got if not isinstance(got, list) else got[:5], self._text[:60], want if not isinstance(want, list) else want[:5],
            ' [compiled]' if self._o._Pregex__compiled is not None else '') if hasattr(self._o, '_Pregex__compiled') else '%s.%s(%r) is %r, pattern gives %r' % (self._what, method, text[:80], got, want)})

    def _cross(self, text):
        # the sibling question about the same text, asked first for every other call
        self._calls += 1
        if self._calls % 2 == 0 and len(text) < 200:
            h = self._o.has_match(text)
            if h != (self._c.search(text) is not None):
                self._disagree('has_match', text, h, not h)

    def is_exact_match(self, text, *a, **k):
        if not a and not k:
            self._cross(text)
        got = self._o.is_exact_match(text, *a, **k)
        if not a and not k and len(text) < 5000:
            want = self._c.fullmatch(text) is not None
            if got != want:
                self._disagree('is_exact_match', text, got, want)
            if self._calls % 2 == 1 and len(text) < 200:
                h = self._o.has_match(text)
                if h != (self._c.search(text) is not None):
                    self._disagree('has_match', text, h, not h)
        return got

    def has_match(self, text, *a, **k):
        got = self._o.has_match(text, *a, **k)
        if not a and not k and len(text) < 5000 and got != (self._c.search(text) is not None):
            self._disagree('has_match', text, got, not got)
        return got

    def get_matches(self, text, *a, **k):
        got = self._o.get_matches(text, *a, **k)
        if not a and not k and len(text) < 5000:
            want = [m.group(0) for m in self._c.finditer(text)]
            if got != want:
                self._disagree('get_matches', text, got, want)
            self._calls += 1
            if self._calls % 3 == 0 and len(text) < 200:
                e = self._o.is_exact_match(text)
                if e != (self._c.fullmatch(text) is not None):
                    self._disagree('is_exact_match', text, e, not e)
        return got

    def get_matches_and_pos(self, text, *a, **k):
        got = self._o.get_matches_and_pos(text, *a, **k)
        if not a and not k and len(text) < 5000:
            want = [(m.group(0), m.start(), m.end()) for m in self._c.finditer(text)]
            if got != want:
                self._disagree('get_matches_and_pos', text, got, want)
        return got


# =========================================================================== C15 Integer
def canonical(s):
    return s.isdigit() and s.isascii() and (s == '0' or s[0] != '0')


def int_ok(s, a, b):
    return canonical(s) and a <= int(s) <= b


INT_VARIANTS = ['int', 'int+sign', 'pos', 'neg', 'uns']


def make_int(variant, a, b, ext=False):
    if variant == 'int':
        return ME.Integer(a, b, is_extensible=ext)
    if variant == 'int+sign':
        return ME.Integer(a, b, include_sign=True, is_extensible=ext)
    if variant == 'pos':
        return ME.PositiveInteger(a, b, is_extensible=ext)
    if variant == 'neg':
        return ME.NegativeInteger(a, b, is_extensible=ext)
    return ME.UnsignedInteger(a, b, is_extensible=ext)


def digit_runs(text):
    return [(m.start(), m.end()) for m in re.finditer(r'[0-9]+', text)]


def judge_integer_text(M, p, variant, a, b, text):
    """three-valued judgement of get_matches_and_pos(text) against the numeric model"""
    try:
        got = p.get_matches_and_pos(text)
    except Exception as e:
        M.expect(False, 'crash:' + type(e).__name__, 'get_matches_and_pos(%r)' % text, 'int-text')
        return
    spans = [(s, e) for _, s, e in got]
    for (s, e) in digit_runs(text):
        N = text[s:e]
        left = text[s - 1] if s > 0 else None
        right = text[e] if e < len(text) else None
        if (right is not None and (right in LETTER_ or not right.isascii())) or (left is not None and (left in LETTER_ or not left.isascii())):
            M.unspec += 1
            continue
        sign = left if left in ('+', '-') else None
        glued_sign = False
        if sign:
            before = text[s - 2] if s > 1 else None
            if before is not None and before in '+-':
                M.unspec += 1
                continue
            if before is not None and re.match(r'\w', before):
                # a sign glued to a word character is not a sign (docs: in '1+2' the signed variant finds only '1'):
                # the signed variants do not match the numeral, the plain one matches the digits only.
                # This must not depend on whether that word character is ASCII.
                glued_sign = True
        valid = int_ok(N, a, b)
        if variant in ('pos', 'neg') and valid and int(N) == 0:
            M.unspec += 1
            continue
        exp = None          # expected span or 'none'
        if not valid:
            exp = 'none'
        elif glued_sign:
            exp = (s, e) if variant == 'int' else 'none'
        elif variant == 'int':
            exp = (s, e)
        elif variant == 'int+sign':
            exp = (s - 1, e) if sign else (s, e)
        elif variant == 'pos':
            exp = (s - 1, e) if sign == '+' else (s, e) if sign is None else 'none'
        elif variant == 'neg':
            exp = (s - 1, e) if sign == '-' else 'none'
        elif variant == 'uns':
            exp = (s, e) if sign is None else 'none'
        overl = [sp for sp in spans if sp[0] < e and sp[1] > s]
        where = 'text-start' if s == 0 else 'text-end' if e == len(text) else 'inner'
        if exp == 'none':
            M.expect(not overl, 'meta:accepts-invalid', '%s(%d,%d) on %r matched %r inside the run %r (%s, %s)' %
                     (variant, a, b, text, [text[x:y] for x, y in overl], N,
                      'leading zero' if not canonical(N) else 'out of range' if not valid else 'sign rule', where), 'int-token')
        else:
            M.expect(overl == [exp], 'meta:rejects-valid', '%s(%d,%d) on %r: run %r (%s) expected match %r, got %r' %
                     (variant, a, b, text, N, where, text[exp[0]:exp[1]], [text[x:y] for x, y in overl]), 'int-token')


def boundary_ranges(rnd, n, include_big=True):
    """ranges from all digit-length combinations 1..6 x boundary shapes"""
    out = [(0, 0), (0, 9), (0, 2147483647), (1, 1), (9, 10), (0, 1), (5, 1000), (2, 6070), (99, 100), (100, 999), (10, 10)]
    for la in range(1, 7):
        for lb in range(la, 7):
            lo_a, hi_a = (0 if la == 1 else 10 ** (la - 1)), 10 ** la - 1
            lo_b, hi_b = (0 if lb == 1 else 10 ** (lb - 1)), 10 ** lb - 1
            shapes = [(lo_a, hi_b), (hi_a, lo_b if lb > la else hi_a), (hi_a, hi_b), (lo_a, lo_b)]
            for _ in range(max(3, n // 30)):
                x, y = rnd.randint(lo_a, hi_a), rnd.randint(lo_b, hi_b)
                shapes.append((min(x, y), max(x, y)))
            # carry patterns: ...99 / ...00 endings
            x = rnd.randint(lo_a, hi_a)
            y = rnd.randint(lo_b, hi_b)
            shapes.append((x - x % 10 + 9 if x - x % 10 + 9 <= y else x, y - y % 100 if y - y % 100 >= x else y))
            for (a, b) in shapes:
                if 0 <= a <= b:
                    out.append((a, b))
    out = list(dict.fromkeys(out))
    rnd.shuffle(out)
    # always: ends far beyond the default, next to powers of ten and of two (float / fixed-width arithmetic on bounds)
    big = []
    # (not beyond 17 digits: the library's pattern backtracks exponentially in the number of digit positions on
    # out-of-range numerals - 20 digits take seconds, 23 do not finish; speed is not part of the property)
    for k in (11, 14, 15, 16, 17):
        for e in (10 ** k - 1, 10 ** k - 2, 10 ** k, 10 ** k + 1):
            big.append((rnd.choice([0, 5, 10, 99, 10 ** (k - 1) + 234, 10 ** (k - 2)]), e))
    big += [(0, 2 ** 31), (1, 2 ** 32 - 1), (7, 2 ** 53), (2 ** 31 - 1, 2 ** 31), (10 ** 15 - 1, 10 ** 15 - 1)]
    if not include_big:
        return out[:n]
    return big + out[:max(n - len(big), 0)]


def int_candidates(a, b, rnd):
    vals = {a, b, a - 1, b + 1, a + 1, b - 1, 0, 1, 9, 10, 99, 100, a * 10, b * 10, b * 10 + 9, a // 10, b // 10, (a + b) // 2,
            int(str(b)[:-1] or 0), int('1' + '0' * len(str(b))), int('9' * len(str(a)))}
    for _ in range(6):
        vals.add(rnd.randint(max(a - 50, 0), b + 50))
        vals.add(rnd.randrange(0, 10 ** rnd.choice([1, 2, 3, 4, 5, 6, 7])))
    out = []
    for v in vals:
        if v < 0:
            continue
        out.append(str(v))
    for v in rnd.sample(out, min(6, len(out))):
        out.append('0' + v)
        out.append('00' + v)
    return list(dict.fromkeys(out))


CTX = [('', ''), (' ', ' '), ('(', ')'), ('+', ''), ('-', ' '), (' +', ','), ('=-', ';'), ('x', ''), ('', 'x'), ('_', ' '), ('1+', ''),
       ('a-', ''), ('--', ''), (',', '.'), ('\n', '\n'), ('$', '%'), ('', '.5'), ('0.', ''), (':', ':'), ('#', ''), ('', '-'), ('é', ' '),
       ('é-', ' '), ('Straße+', ''), ('中-', ','), ('_+', ' '), ('9-', ''), ('Ω+', ')')]


def int_texts(cands, rnd):
    texts = []
    for N in cands:
        texts.append(N)                                   # the numeral is the whole text (start *and* end)
        l, r = rnd.choice(CTX)
        texts.append(l + N + r)
    # longer texts: several tokens in random contexts
    for _ in range(4):
        parts = []
        for N in rnd.sample(cands, min(5, len(cands))):
            l, r = rnd.choice(CTX)
            parts.append(l + N + r)
        texts.append(rnd.choice([' ', '\n', ', ']).join(parts))
        texts.append(rnd.choice(cands) + ' ' + ' '.join(parts) + ' ' + rnd.choice(cands))
    return texts


def run_int(M, case):
    a, b, variant = case['a'], case['b'], case['variant']
    rnd = random.Random(case['seed'])
    p = M.build('%s(%d,%d)' % (variant, a, b), lambda: make_int(variant, a, b))
    if p is None:
        return
    cands = int_candidates(a, b, rnd)
    for t in int_texts(cands, rnd):
        judge_integer_text(M, p, variant, a, b, t)
    # exact match on bare numerals (with the variant's own sign)
    for N in cands:
        for sign in ('', '+', '-'):
            tok = sign + N
            v = int_ok(N, a, b)
            if variant in ('pos', 'neg') and v and int(N) == 0:
                continue
            sv = {'int': sign == '', 'int+sign': True, 'pos': sign in ('', '+'), 'neg': sign == '-', 'uns': sign == ''}[variant]
            exp = v and sv
            got = p.is_exact_match(tok)
            M.expect(got == exp, 'meta:accepts-invalid' if got else 'meta:rejects-valid',
                     '%s(%d,%d).is_exact_match(%r) is %r (%s)' % (variant, a, b, tok, got, 'leading zero' if not canonical(N) else 'range/sign'), 'int-exact')
    # extensible: prefix + numeral matched in full <=> value and leading-zero criterion
    if case.get('ext', True):
        pe = M.build('%s(%d,%d,ext)' % (variant, a, b), lambda: make_int(variant, a, b, True))
        if pe is not None:
            # (with include_sign the extensible form wants its sign spelled out; an unsigned
            # numeral there is left unspecified)
            sign = {'int': '', 'int+sign': '+', 'pos': '+', 'neg': '-', 'uns': ''}[variant]
            for prefix in ('x', '#', 'n=', ' ', 'id_'):
                try:
                    q = prefix + pe
                except Exception as e:
                    M.expect(False, 'crash:' + type(e).__name__, 'prefix + extensible integer', 'int-ext')
                    continue
                for N in cands[:10] + [c for c in cands if not canonical(c)]:
                    if variant in ('pos', 'neg') and canonical(N) and int(N) == 0:
                        continue
                    exp = int_ok(N, a, b)
                    got = q.is_exact_match(prefix + sign + N)
                    M.expect(got == exp, 'meta:accepts-invalid' if got else 'meta:rejects-valid',
                             '(%r + %s(%d,%d,is_extensible=True)).is_exact_match(%r) is %r' % (prefix, variant, a, b, prefix + sign + N, got), 'int-ext')


def run_int_invalid(M, case):
    for variant in INT_VARIANTS:
        for a in (-1, 0, 1, 6, 10, 1.5, '0', None, -3, 0.0, 1.0, 10.0):
            for b in (-1, 0, 5, 9, 10, 2147483647, '5', 2.5, None, 5.0, 9.0, 2147483647.0):
                for ext in (False, True):
                    bad = set()
                    if not isinstance(a, int) or not isinstance(b, int):
                        exc = (T_TYPE,)
                    else:
                        if a < 0:
                            bad.add(T_VALUE)
                        if a > b:
                            bad.add(T_VALUE)
                        exc = tuple(bad)
                    M.build('%s(%r,%r,ext=%r)' % (variant, a, b, ext), lambda: make_int(variant, a, b, ext), exc or None)


# =========================================================================== C16 Decimal
DEC_VARIANTS = {'dec': ('', lambda *a, **k: ME.Decimal(*a, **k)),
                'dec+sign': ('opt', lambda *a, **k: ME.Decimal(*a, include_sign=True, **k)),
                'pos': ('pos', lambda *a, **k: ME.PositiveDecimal(*a, **k)),
                'neg': ('neg', lambda *a, **k: ME.NegativeDecimal(*a, **k)),
                'uns': ('uns', lambda *a, **k: ME.UnsignedDecimal(*a, **k))}


def run_dec(M, case):
    a, b, mn, mx, variant = case['a'], case['b'], case['mn'], case['mx'], case['variant']
    rnd = random.Random(case['seed'])
    sg, mk = DEC_VARIANTS[variant]
    what = '%s(%d,%d,%r,%r)' % (variant, a, b, mn, mx)
    p = M.build(what, lambda: mk(a, b, mn, mx))
    if p is None:
        return
    ints = [str(v) for v in sorted({a, b, a - 1, b + 1, 0, 5, 10, (a + b) // 2, b * 10, a // 10, rnd.randint(0, b + 9)}) if v >= 0]
    ints += ['', '0' + str(a), '00', '0' + str(b), '007']
    flens = sorted({mn - 1, mn, mn + 1, (mx or mn + 2), (mx or mn + 2) + 1, 0, 1, 7} - {-1})
    for I in ints:
        for fl in flens:
            F = ''.join(rnd.choice('0123456789') for _ in range(fl))
            for sign in ('', '+', '-'):
                tok = sign + I + '.' + F
                iv = int_ok(I, a, b) or (I == '' and a == 0)
                if sg in ('pos', 'neg') and I != '' and canonical(I) and int(I) == 0 and False:
                    continue
                fv = fl >= mn and (mx is None or fl <= mx)
                sv = {'': sign == '', 'opt': True, 'pos': sign in ('', '+'), 'neg': sign == '-', 'uns': sign == ''}[sg]
                exp = iv and fv and sv
                try:
                    got = p.is_exact_match(tok)
                except Exception as e:
                    M.expect(False, 'crash:' + type(e).__name__, '%s.is_exact_match(%r)' % (what, tok), 'dec-exact')
                    continue
                why = 'int-part' if not iv else 'fraction-length' if not fv else 'sign'
                M.expect(got == exp, 'meta:accepts-invalid' if got else 'meta:rejects-valid',
                         '%s.is_exact_match(%r) is %r (%s%s)' % (what, tok, got, why, ', leading zero' if (I and not canonical(I)) else ''), 'dec-exact')
                if exp:
                    for l, r in ((' ', ' '), ('(', ')'), ('', ''), ('\n', ','), ('x=', ' ')):
                        g2 = p.get_matches(l + tok + r)
                        M.expect(g2 == [tok], 'meta:rejects-valid', '%s.get_matches(%r) = %r, expected [%r]' % (what, l + tok + r, g2, tok), 'dec-embedded')


def _isint(v):
    return isinstance(v, int) and not isinstance(v, bool)


def dec_bounds_expect(mn, mx):
    """documented validation of (min_decimal, max_decimal): set of acceptable exception names (empty = valid)"""
    bad = set()
    if not _isint(mn):
        bad.add(T_TYPE)
    elif mn < 1:
        bad.add(T_VALUE)
    if mx is not None and not _isint(mx):
        bad.add(T_TYPE)
    elif mx is not None and _isint(mn) and mn > mx:
        bad.add(T_VALUE)
    elif mx is not None and mx < 1:
        bad.add(T_VALUE)
    return tuple(sorted(bad))


def int_bounds_expect(a, b):
    bad = set()
    if not isinstance(a, int) or not isinstance(b, int):
        bad.add(T_TYPE)
        return tuple(bad)
    if isinstance(a, bool) or isinstance(b, bool):
        return None          # bool for int: not spelled out for these parameters
    if a < 0:
        bad.add(T_VALUE)
    if a > b:
        bad.add(T_VALUE)
    return tuple(sorted(bad))


DEC_GLUE_TEXTS = ['x12.5', 'x007.5', 'c=123.75%', '1.5+.5', '3-.25', '12.5', '99999999999.5', '1.5-2.5', 'a.5', '7.5.5', '1+2.5', '00.5', '-.5 +.5 .5',
                  '5+.25', 'v1.2.3', '0.5-.5', '10.25', '(.75)', 'x = .5', '2.50+1.25']


def run_dec_glue(M, case):
    """search results of every Decimal variant on texts with glued numerals: a numeral without integer part never starts
    right after a digit, and (non-extensible) a sign glued to a word character is not part of a match"""
    for variant, (sg, mk) in DEC_VARIANTS.items():
        for (a, b) in ((0, 9), (0, 2147483647), (0, 99)):
            for (mn, mx) in ((1, None), (2, 2), (1, 3)):
                for ext in (False, True):
                    what = '%s(%d,%d,%r,%r,is_extensible=%r)' % (variant, a, b, mn, mx, ext)
                    p = M.build(what, lambda: mk(a, b, mn, mx, is_extensible=ext))
                    if p is None:
                        continue
                    for t in DEC_GLUE_TEXTS:
                        try:
                            got = p.get_matches_and_pos(t)
                        except Exception as e:
                            M.expect(False, 'crash:' + type(e).__name__, '%s.get_matches_and_pos(%r)' % (what, t), 'dec-glue')
                            continue
                        for (m, s_, e_) in got:
                            prev = t[s_ - 1] if s_ > 0 else ''
                            body = m.lstrip('+-')
                            if body.startswith('.'):
                                first = s_ + (len(m) - len(body))
                                pv = t[first - 1] if first > 0 else ''
                                M.expect(not (pv.isdigit()) or first != s_, 'meta:glued-match',
                                         '%s on %r matched %r: a numeral without integer part directly after the digit %r' % (what, t, m, pv), 'dec-glue')
                                if first != s_:
                                    # sign + '.' : the sign itself must not be glued to a digit either (documented for include_sign)
                                    M.expect(not prev.isdigit() or ext, 'meta:glued-match',
                                             '%s on %r matched %r: the sign is glued to the digit %r' % (what, t, m, prev), 'dec-glue')
                            elif m[:1] in '+-' and not ext:
                                M.expect(not (prev.isdigit() or prev.isalpha() or prev == '_'), 'meta:glued-match',
                                         '%s on %r matched %r: the sign is glued to %r' % (what, t, m, prev), 'dec-glue')


DEC_SUFFIX_TEXTS = ['1.5kg', '3.14f', '2.5e3', '4.5_', '.5z', '-6.5x', '1.5 kg', '7.25€', '1.5é', '+2.5cm 3.5', '1.25.', '1.5-', 'x1.5y', '0.5٣']


def run_dec_unbounded(M, case):
    """max_decimal=None means "unbounded": on texts whose digit runs are all shorter than K it must behave exactly like
    max_decimal=K (real vs real; says nothing about what either of them matches)"""
    K = 40
    for variant, (sg, mk) in DEC_VARIANTS.items():
        for (a, b) in ((0, 9), (0, 2147483647), (3, 120)):
            for mn in (1, 2):
                for ext in (False, True):
                    what = '%s(%d,%d,%d,None|%d,is_extensible=%r)' % (variant, a, b, mn, K, ext)
                    p = M.build(what + '[None]', lambda: mk(a, b, mn, None, is_extensible=ext))
                    q = M.build(what + '[%d]' % K, lambda: mk(a, b, mn, K, is_extensible=ext))
                    if p is None or q is None:
                        continue
                    for t in DEC_GLUE_TEXTS + DEC_SUFFIX_TEXTS:
                        try:
                            g1, g2 = p.get_matches_and_pos(t), q.get_matches_and_pos(t)
                        except Exception as e:
                            M.expect(False, 'crash:' + type(e).__name__, '%s.get_matches_and_pos(%r)' % (what, t), 'dec-unbounded')
                            continue
                        M.expect(g1 == g2, 'meta:unbounded-differs', '%s on %r: max_decimal=None finds %r, max_decimal=%d finds %r (fraction-length)' % (what, t, g1, K, g2), 'dec-unbounded')


def run_dec_invalid(M, case):
    mins = [0, -1, 1, 2, 3, 1.5, '1', True, None, 1.0, 2.0]
    maxs = [None, 0, 1, 2, 3, 5, -1, 2.5, '3', True, 3.0, 5.0]
    for variant, (sg, mk) in DEC_VARIANTS.items():
        for mn in mins:
            for mx in maxs:
                for ext in (False, True):
                    exc = dec_bounds_expect(mn, mx)
                    M.build('%s(0,5,%r,%r,is_extensible=%r)' % (variant, mn, mx, ext), lambda: mk(0, 5, mn, mx, is_extensible=ext), exc or None)
        import fractions
        for a in (-1, 0, 1, 6, 1.5, '1', None, 0.0, 1.0, fractions.Fraction(1)):
            for b in (-1, 0, 5, 7, '5', 2.5, None, 5.0, 7.0):
                exc = int_bounds_expect(a, b)
                if exc is None:
                    continue
                M.build('%s(%r,%r)' % (variant, a, b), lambda: mk(a, b), exc or None)


# =========================================================================== C17 Numeral / Word
DIG = '0123456789abcdef'


def run_numeral(M, case):
    base, nmin, nmax = case['base'], case['nmin'], case['nmax']
    rnd = random.Random(case['seed'])
    what = 'Numeral(%d,%r,%r)' % (base, nmin, nmax)
    p = M.build(what, lambda: ME.Numeral(base, nmin, nmax))
    if p is None:
        return
    alpha = DIG[:base]
    foreign = DIG[base] if base < 16 else 'g'
    lens = sorted({max(nmin - 1, 1), max(nmin, 1), nmin + 1, (nmax or nmin + 3), (nmax or nmin + 3) + 1, 1, 2} - {0})
    cands = []
    for Ln in lens:
        for _ in range(3):
            s = ''.join(rnd.choice(alpha) for _ in range(Ln))
            cands += [s, s.upper(), ''.join(ch.upper() if rnd.random() < 0.5 else ch for ch in s)]
        cands.append(alpha[-1] * Ln)
        cands.append(alpha[-1].upper() * Ln)
        cands.append('0' * Ln)
        s = list(alpha[-1] * Ln)
        s[rnd.randrange(Ln)] = foreign
        cands.append(''.join(s))
        cands.append(''.join(s).upper())
    cands = list(dict.fromkeys(cands))

    def ok(s):
        return all(ch.lower() in alpha for ch in s) and nmin <= len(s) and (nmax is None or len(s) <= nmax)
    for s in cands:
        got = p.is_exact_match(s)
        M.expect(got == ok(s), 'meta:accepts-invalid' if got else 'meta:rejects-valid',
                 '%s.is_exact_match(%r) is %r' % (what, s, got), 'numeral-exact')
    # standalone-ness: maximal word runs in a text
    for _ in range(6):
        toks = rnd.sample(cands, min(4, len(cands))) + [rnd.choice(cands) + rnd.choice(['z', '_', 'Q']), rnd.choice(['z', '_']) + rnd.choice(cands)]
        rnd.shuffle(toks)
        text = rnd.choice(['', ' ', '(']) + rnd.choice([' ', ', ', '\n', '-', '.', ' (', ') ']).join(toks) + rnd.choice(['', ' ', ')'])
        exp = [w for w in re.findall(r'[A-Za-z0-9_]+', text) if ok(w)]
        got = p.get_matches(text)
        if nmin == 0:
            got = [g for g in got if g != '']      # zero-length numerals: unspecified
        M.expect(got == exp, 'meta:wrong-matches', '%s.get_matches(%r) = %r, expected %r' % (what, text, got, exp), 'numeral-text')
    pe = M.build(what + 'ext', lambda: ME.Numeral(base, nmin, nmax, is_extensible=True))
    if pe is not None:
        for s in cands[:10]:
            got = ('#' + pe + '#').is_exact_match('#' + s + '#')
            M.expect(got == ok(s), 'meta:accepts-invalid' if got else 'meta:rejects-valid',
                     "('#'+%s(ext)+'#').is_exact_match(%r) is %r" % (what, '#' + s + '#', got), 'numeral-ext')


def numeral_expect(base, nmin, nmax):
    bad = set()
    if not isinstance(base, int):
        bad.add(T_TYPE)
    elif isinstance(base, bool):
        bad |= {T_TYPE, T_VALUE}
    elif base < 2 or base > 16:
        bad.add(T_VALUE)
    if not _isint(nmin):
        bad.add(T_TYPE)
    elif nmin < 0:
        bad.add(T_VALUE)
    if nmax is not None and not _isint(nmax):
        bad.add(T_TYPE)
    elif nmax is not None and nmax < 0:
        bad.add(T_VALUE)
    elif nmax is not None and _isint(nmin) and nmax < nmin:
        bad.add(T_VALUE)
    return tuple(sorted(bad))


def word_expect(mn, mx):
    bad = set()
    if isinstance(mn, bool) or isinstance(mx, bool):
        return None
    if not isinstance(mn, int):
        bad.add(T_TYPE)
    elif mn < 1:
        bad.add(T_VALUE)
    if mx is not None and not isinstance(mx, int):
        bad.add(T_TYPE)
    elif mx is not None and mx < 1:
        bad.add(T_VALUE)
    elif mx is not None and isinstance(mn, int) and mn > mx:
        bad.add(T_VALUE)
    return tuple(sorted(bad))


def run_numeral_invalid(M, case):
    for base in (1, 2, 10, 16, 17, 0, -2, 2.5, '10', None, True, 10.0, 16.0):
        for nmin in (0, 1, 3, -1, 1.5, '1', True, None, 1.0):
            for nmax in (None, 0, 1, 2, 5, -1, 2.5, '2', True, 5.0):
                for ext in (False, True):
                    exc = numeral_expect(base, nmin, nmax)
                    M.build('Numeral(%r,%r,%r,ext=%r)' % (base, nmin, nmax, ext), lambda: ME.Numeral(base, nmin, nmax, is_extensible=ext), exc or None)
    for mn in (0, 1, 2, 3, -1, 1.5, '1', None):
        for mx in (None, 0, 1, 2, 5, -2, 2.5, '2'):
            for g in (True, False):
                exc = word_expect(mn, mx)
                if exc is None:
                    continue
                M.build('Word(%r,%r,is_global=%r)' % (mn, mx, g), lambda: ME.Word(mn, mx, is_global=g), exc or None)
    for cls in (ME.WordContains, ME.WordStartsWith, ME.WordEndsWith):
        for arg in (5, None, ['a', 5], [None], 1.5, ['a', ['b']], b'a', ['ok', b'x'], [1]):
            M.build('%s(%r)' % (cls.__name__, arg), lambda: cls(arg), (T_TYPE,))
        for arg in ('a', ['a'], ['a', 'b.c'], 'x$'):
            M.build('%s(%r)' % (cls.__name__, arg), lambda: cls(arg))


WORDCH = 'abcXYZ019_'
SEPS = [' ', ', ', '\n', '-', '. ', '(', ')', ' - ', '!', '\t']


def mk_text(rnd):
    toks = [''.join(rnd.choice(WORDCH) for _ in range(rnd.choice([1, 2, 3, 4, 5, 6, 7, 9]))) for _ in range(rnd.choice([1, 3, 6]))]
    return rnd.choice(['', ' ', '(']) + ''.join(t + rnd.choice(SEPS) for t in toks) + rnd.choice(['', 'end', 'a1'])


def words(text):
    return re.findall(r'[A-Za-z0-9_]+', text)


HOSTILE_AFFIX = ['a.b', 'c|d', 'x$', '$', '(', 'a)', '[x', '\\', 'a+', '?', '^a', 'a{2}', 'é', 'a-b', '.', '*']


def run_word(M, case):
    rnd = random.Random(case['seed'])
    mn, mx, g = case['mn'], case['mx'], case['glob']
    what = 'Word(%r,%r,is_global=%r)' % (mn, mx, g)
    p = M.build(what, lambda: ME.Word(mn, mx, is_global=g))
    if p is not None:
        for _ in range(8):
            t = mk_text(rnd)
            exp = [w for w in words(t) if len(w) >= mn and (mx is None or len(w) <= mx)]
            got = p.get_matches(t)
            M.expect(got == exp, 'meta:wrong-matches', '%s.get_matches(%r) = %r, expected %r' % (what, t, got, exp), 'word-text')
        for Ln in sorted({max(mn - 1, 1), mn, mn + 1, (mx or mn + 2), (mx or mn + 2) + 1}):
            w = ''.join(rnd.choice(WORDCH) for _ in range(Ln))
            exp = Ln >= mn and (mx is None or Ln <= mx)
            got = p.is_exact_match(w)
            M.expect(got == exp, 'meta:accepts-invalid' if got else 'meta:rejects-valid', '%s.is_exact_match(%r) is %r' % (what, w, got), 'word-exact')
            M.expect(not p.is_exact_match(w + ' ' + w), 'meta:accepts-invalid', '%s exactly matches two words' % what, 'word-exact')
    # is_global decides whether foreign word characters count (decided on texts with non-ASCII words)
    def gwords(text, glob):
        runs = re.findall(r'\w+', text)
        return runs if glob else [w for w in runs if w.isascii()]
    NONASCII = ['füring', 'éx', 'xé', 'Γειά', 'naïve', 'ab', 'ing', 'Жук9', 'a_é', 'żółw', 'xing', 'éing', 'ingé']
    if p is not None:
        for _ in range(3):
            t = ' '.join(rnd.sample(NONASCII, 5)) + rnd.choice(['', '.', ' é'])
            exp = [w for w in gwords(t, g) if len(w) >= mn and (mx is None or len(w) <= mx)]
            got = p.get_matches(t)
            M.expect(got == exp, 'meta:wrong-matches', '%s.get_matches(%r) = %r, expected %r (is_global=%r)' % (what, t, got, exp, g), 'word-global')
    for cls, pred, nm in [(ME.WordContains, lambda w: 'ing' in w or 'é' in w, 'contains'), (ME.WordStartsWith, lambda w: w.startswith('ing') or w.startswith('é'), 'starts'),
                          (ME.WordEndsWith, lambda w: w.endswith('ing') or w.endswith('é'), 'ends')]:
        q = M.build('%s([ing, é], is_global=%r)' % (cls.__name__, g), lambda: cls(['ing', 'é'], is_global=g))
        if q is None:
            continue
        for _ in range(2):
            t = ' '.join(rnd.sample(NONASCII, 6))
            # with is_global=False only ASCII word characters may surround the affix; the affix itself is literal
            exp = []
            for w in re.findall(r'\w+', t):
                if not pred(w):
                    continue
                if g:
                    exp.append(w)
                else:
                    rest_ok = False
                    for a in ('ing', 'é'):
                        for mm in re.finditer(re.escape(a), w):
                            pre, post = w[:mm.start()], w[mm.end():]
                            ok_pos = {'contains': True, 'starts': pre == '', 'ends': post == ''}[nm]
                            if ok_pos and pre.isascii() and post.isascii():
                                rest_ok = True
                    if rest_ok:
                        exp.append(w)
            got = q.get_matches(t)
            M.expect(got == exp, 'meta:wrong-matches', '%s([ing, é], is_global=%r).get_matches(%r) = %r, expected %r' % (cls.__name__, g, t, got, exp),
                     'affix-global')
    # affix classes, word-character affixes: behavioural model
    aff = [''.join(rnd.choice('abcXY01') for _ in range(rnd.choice([1, 2]))) for _ in range(rnd.choice([1, 2, 3]))]
    arg = aff if rnd.random() < 0.7 else aff[0]
    al = arg if isinstance(arg, list) else [arg]
    for cls, pred, nm in [(ME.WordContains, lambda w: any(a in w for a in al), 'contains'),
                          (ME.WordStartsWith, lambda w: any(w.startswith(a) for a in al), 'starts'),
                          (ME.WordEndsWith, lambda w: any(w.endswith(a) for a in al), 'ends')]:
        q = M.build('%s(%r,%r)' % (cls.__name__, arg, g), lambda: cls(arg, is_global=g))
        if q is None:
            continue
        for _ in range(5):
            t = mk_text(rnd) + ' ' + rnd.choice(al) + rnd.choice(['', 'zz', '_']) + ' ' + rnd.choice(['q', '']) + rnd.choice(al)
            exp = [w for w in words(t) if pred(w)]
            got = q.get_matches(t)
            M.expect(got == exp, 'meta:wrong-matches', '%s(%r).get_matches(%r) = %r, expected %r' % (cls.__name__, arg, t, got, exp), 'affix-' + nm)
    # any affix list, metacharacters included: the whole pattern must be the documented composition
    # with the affixes as literals (decided structurally => for all texts)
    affs = rnd.sample(HOSTILE_AFFIX, rnd.choice([1, 2, 3])) + (['ab'] if rnd.random() < 0.5 else [])
    rnd.shuffle(affs)
    k = rnd.random()
    if k < 0.12:
        affs = list('0123456789')
    elif k < 0.2:
        affs = [' ', '\t', '\n', '\r', '\x0b', '\x0c']
    elif k < 0.3:
        affs = rnd.sample(list('abcxyz0123456789_-.$'), rnd.choice([3, 5, 8]))
    elif k < 0.42:
        x, y, z = rnd.sample(['on', 'off', 'da', 'x', 'ab', 'q1', 'é', '(', 'a.'], 3)
        affs = rnd.choice([[x + '|' + y, z, y], [x + '|' + y, y, z], [z, x + '|', y, ''][:3], [x, y, x + '|' + y, y], ['|', x, ''][:2] + [y], [x, x, y]])
    wc = '[A-Za-z0-9_]'
    for cls, tmpl in [(ME.WordContains, '(?:%(w)s)*(?:%(a)s)(?:%(w)s)*'), (ME.WordStartsWith, '(?:%(a)s)(?:%(w)s)*'),
                      (ME.WordEndsWith, '(?:%(w)s)*(?:%(a)s)')]:
        for ext in (True, False):
            q = M.build('%s(%r,ext=%r)' % (cls.__name__, affs, ext), lambda: cls(list(affs), is_global=g, is_extensible=ext))
            if q is None:
                continue
            alt = '|'.join('(?:%s)' % S.esc(a) for a in affs)
            ref = tmpl % {'w': wc, 'a': alt}
            if not ext:
                ref = '\\b(?:' + ref + ')\\b'
            if g:
                ref = ref.replace(wc, '\\w')
            a, b = C.parse(str(q)), C.parse(ref)
            ok = (not a.error) and a.key == b.key
            if ok:
                # (the surrounding non-global word class is [A-Za-z\d_] - what \d adds beyond 0-9 is left unspecified,
                #  so the reference mirrors it there; the *affixes* are what is under test)
                if not g:
                    ref = ref.replace(wc, '[A-Za-z\\d_]')
                # the canonical form identifies \d \s \w with their ASCII bases; the affixes are *literal*, so real and
                # reference must also agree on words with non-ASCII digits / spaces / letters
                ca, cb = re.compile(str(q), C.FL), re.compile(ref, C.FL)
                for t in ('x٣y ५k no３ ١٢ z9 7up', 'a\u00a0b c\u2003d e f', 'füring éx Жук9 ab', ' '.join(affs) + ' ٣' + affs[0] + ' ' + affs[-1] + 'é'):
                    if [m.span() for m in ca.finditer(t)] != [m.span() for m in cb.finditer(t)]:
                        M.counts['affix-unicode-diff'] += 1
                        M.expect(False, 'meta:affix-not-literal', '%s(%r, is_global=%r, is_extensible=%r) emitted %r: on %r it matches %r, the literal '
                                 'reference %r' % (cls.__name__, affs, g, ext, str(q), t, [m.group(0) for m in ca.finditer(t)],
                                                   [m.group(0) for m in cb.finditer(t)]), 'affix-unicode')
                        break
            if not ok and not a.error:
                # fall back on behaviour over words built from the affixes
                ca, cb = re.compile(str(q), C.FL), re.compile(ref, C.FL)
                ok = True
                for af in affs:
                    for t in (af, 'x' + af, af + 'x', 'x' + af + 'y', af.replace('.', 'z'), af + af, ' ' + af + ' '):
                        if [m.span() for m in ca.finditer(t)] != [m.span() for m in cb.finditer(t)]:
                            ok = False
                M.counts['affix-struct-fallback'] += 1
            M.expect(ok, 'meta:affix-not-literal', '%s(%r, is_extensible=%r) emitted %r, not equivalent to %r' %
                     (cls.__name__, affs, ext, str(q), ref), 'affix-struct')


# =========================================================================== C18 IPv4 / IPv6
def valid4(s):
    if not re.fullmatch(r'[0-9.]*', s):
        return False
    try:
        ipaddress.IPv4Address(s)
        return True
    except Exception:
        return False


def valid6(s):
    if not re.fullmatch(r'[0-9A-Fa-f:]*', s):
        return False
    try:
        ipaddress.IPv6Address(s)
        return True
    except Exception:
        return False


def glue_law(M, p, text, glue, what):
    try:
        got = p.get_matches_and_pos(text)
    except Exception as e:
        M.expect(False, 'crash:' + type(e).__name__, '%s.get_matches_and_pos(%r)' % (what, text), 'ip-glue')
        return []
    for (m, s, e) in got:
        l = text[s - 1] if s > 0 else ''
        r = text[e] if e < len(text) else ''
        M.expect(not (l and l in glue) and not (r and r in glue), 'meta:glued-match',
                 '%s matched %r inside %r although it is glued to %r' % (what, m, text, (l, r)), 'ip-glue')
    return got


def run_ipv4(M, case):
    p = M.build('IPv4()', lambda: ME.IPv4())
    pe = M.build('IPv4(ext)', lambda: ME.IPv4(is_extensible=True))
    if p is None or pe is None:
        return
    rnd = random.Random(case['seed'])
    octs = case['octets']
    for a in octs:
        for pos in range(4):
            parts = [str(rnd.choice([0, 1, 9, 10, 99, 100, 199, 200, 249, 250, 255])) for _ in range(4)]
            parts[pos] = str(a)
            s = '.'.join(parts)
            exp = valid4(s)
            for pat, nm in ((p, 'IPv4()'), (pe, 'IPv4(is_extensible=True)')):
                got = pat.is_exact_match(s)
                M.expect(got == exp, 'meta:accepts-invalid' if got else 'meta:rejects-valid', '%s.is_exact_match(%r) is %r' % (nm, s, got), 'ipv4-exact')
            if exp:
                for l, r in ((' ', ' '), ('(', ')'), ('', ''), ('x', 'y'), (',', ';')):
                    got = p.get_matches(l + s + r)
                    M.expect(got == [s], 'meta:rejects-valid', 'IPv4().get_matches(%r) = %r' % (l + s + r, got), 'ipv4-embedded')
                for text in (s + '.', '.' + s, s + '5', '5' + s if len(parts[0]) == 3 else '1' + s, s + '.7', '9.' + s, s + '.' + s):
                    glue_law(M, p, text, '0123456789.', 'IPv4()')
    for s in ['1.2.3', '1.2.3.4.5', '1..2.3', '.1.2.3', '1.2.3.', '1.2.3.4.', '', '....', '1.2.3.a', '01.2.3.4', '1.2.3.04', '1.2.3.256', '256.1.1.1',
              '1.2.3.4 ', ' 1.2.3.4', '1,2,3,4', '1.2.3.4\n', '00.0.0.0', '0.0.0.0', '255.255.255.255', '1.2.3.-4', '1.2.3.+4', '1.2.3.4e']:
        exp = valid4(s)
        for pat, nm in ((p, 'IPv4()'), (pe, 'IPv4(is_extensible=True)')):
            got = pat.is_exact_match(s)
            M.expect(got == exp, 'meta:accepts-invalid' if got else 'meta:rejects-valid', '%s.is_exact_match(%r) is %r' % (nm, s, got), 'ipv4-exact')


GLENS = ['1', 'ab', '0Cd', 'fFfF', '12345', '']


def ipv6_shapes(total_lo, total_hi):
    """every address shape: group count x '::' position (or none) x group-length classes"""
    for total in range(total_lo, total_hi + 1):
        for dc in [None] + list(range(0, total + 1)):
            choices = [0, 3, 4, 5] if total <= 4 else [0, 3, 4] if total <= 6 else [0, 3]
            for lens in itertools.product(choices, repeat=total):
                groups = [GLENS[i] for i in lens]
                if dc is None:
                    yield ':'.join(groups)
                else:
                    yield ':'.join(groups[:dc]) + '::' + ':'.join(groups[dc:])


def run_ipv6(M, case):
    p = M.build('IPv6()', lambda: ME.IPv6())
    pe = M.build('IPv6(ext)', lambda: ME.IPv6(is_extensible=True))
    if p is None or pe is None:
        return
    rnd = random.Random(case['seed'])
    for s in case['strings']:
        exp = valid6(s)
        for pat, nm in ((p, 'IPv6()'), (pe, 'IPv6(is_extensible=True)')):
            got = pat.is_exact_match(s)
            M.expect(got == exp, 'meta:accepts-invalid' if got else 'meta:rejects-valid',
                     '%s.is_exact_match(%r) is %r (%d groups%s)' % (nm, s, got, len([g for g in s.replace('::', ':').split(':') if g]),
                                                                     ", with '::'" if '::' in s else ''), 'ipv6-exact')
        if exp and rnd.random() < 0.15:
            for l, r in ((' ', ' '), ('(', ')'), ('', ''), (',', ';'), ('\n', ' ')):
                got = p.get_matches(l + s + r)
                M.expect(got == [s], 'meta:rejects-valid', 'IPv6().get_matches(%r) = %r' % (l + s + r, got), 'ipv6-embedded')
            for text in (s + ':', ':' + s, s + '5', '5' + s, s + ':7', '9:' + s, s + ':' + s, 'abcde' + s, s + 'abcde', 'F' + s, s + 'e', ':a' + s):
                # the digits of an IPv6 address are hexadecimal: glue to a hex letter counts like glue to a decimal digit
                glue_law(M, p, text, '0123456789abcdefABCDEF:', 'IPv6()')


def rand_ipv6(rnd, n):
    out = []
    for _ in range(n):
        total = rnd.choice([0, 1, 2, 3, 5, 6, 7, 8, 8, 8, 9])
        groups = [''.join(rnd.choice('0123456789abcdefABCDEF') for _ in range(rnd.choice([1, 2, 3, 4, 4, 5] if rnd.random() < 0.15 else [1, 2, 3, 4])))
                  for _ in range(total)]
        if rnd.random() < 0.6 and total < 9:
            dc = rnd.randrange(0, total + 1)
            s = ':'.join(groups[:dc]) + '::' + ':'.join(groups[dc:])
        else:
            s = ':'.join(groups)
        k = rnd.random()
        if k < 0.05:
            s = s.replace(':', '::', 1)
        elif k < 0.08:
            s = s + ':'
        elif k < 0.11:
            s = ':' + s
        elif k < 0.13:
            s = s.replace(':', '.', 1)
        elif k < 0.15:
            s = s + 'g'
        out.append(s)
    return out


# =========================================================================== C19 Date
def date_formats():
    out = []
    for d in ('dd', 'd'):
        for m in ('mm', 'm'):
            for y in ('yyyy', 'yy'):
                for tpl in ((d, m, y), (m, d, y), (y, m, d)):
                    for sep in '-/':
                        out.append(sep.join(tpl))
    return out


PART = {'d': r'[1-9]', 'dd': r'(?:0[1-9]|[12][0-9]|3[01])', 'm': r'[1-9]', 'mm': r'(?:0[1-9]|1[0-2])', 'yy': r'[0-9]{2}', 'yyyy': r'[0-9]{4}'}


def date_model(fmt):
    sep = '-' if '-' in fmt else '/'
    return re.compile(re.escape(sep).join(PART[x] for x in fmt.split(sep)))


VALS = ['%02d' % i for i in range(0, 100)] + [str(i) for i in range(0, 10)] + ['', '100', '001', '2021', '202', '20211', '1999', 'a1', '1a']
BASEV = {'d': '5', 'dd': '15', 'm': '7', 'mm': '11', 'yy': '21', 'yyyy': '2021'}


def run_date(M, case):
    fmts = case['formats']
    arg = fmts if case.get('as_list', True) else fmts[0]
    if case.get('all'):
        arg = None
        fmts = date_formats()
    rnd = random.Random(case['seed'])
    what = 'Date(%r)' % (arg if arg is None or len(str(arg)) < 60 else '%d formats' % len(fmts))
    p = M.build(what, lambda: ME.Date(arg))
    pe = M.build(what + 'ext', lambda: ME.Date(arg, is_extensible=True))
    if p is None or pe is None:
        return
    models = [date_model(f) for f in fmts]

    def ok(s):
        return any(m.fullmatch(s) for m in models)
    probe_fmts = fmts if len(fmts) <= 3 else rnd.sample(fmts, 3)
    extra = rnd.sample(date_formats(), 2)
    for fmt in probe_fmts + extra:
        sep = '-' if '-' in fmt else '/'
        parts = fmt.split(sep)
        for idx, part in enumerate(parts):
            vals = VALS if len(fmts) <= 3 else rnd.sample(VALS, 30)
            for v in vals:
                for s2 in (sep, '/' if sep == '-' else '-'):
                    comp = [BASEV[x] for x in parts]
                    comp[idx] = v
                    s = comp[0] + sep + comp[1] + s2 + comp[2]
                    exp = ok(s)
                    for pat, nm in ((p, what), (pe, what + '[extensible]')):
                        got = pat.is_exact_match(s)
                        M.expect(got == exp, 'meta:accepts-invalid' if got else 'meta:rejects-valid', '%s.is_exact_match(%r) is %r' % (nm, s, got), 'date-exact')
                    if exp and rnd.random() < 0.1:
                        for l, r in ((' ', ' '), ('(', ')'), ('on ', '.')):
                            got = p.get_matches(l + s + r)
                            M.expect(got == [s], 'meta:rejects-valid', '%s.get_matches(%r) = %r' % (what, l + s + r, got), 'date-embedded')


def run_date_invalid_late(M, case):
    """invalid spellings that differ from documented formats only by letter case / whitespace, probed after valid constructions"""
    ME.Date()
    for f in ('dd/mm/yyyy', 'd-m-yy', 'yyyy/mm/d', 'mm/dd/yy'):
        ME.Date(f)
        ME.Date([f], is_extensible=True)
    for bad in ('DD/MM/YYYY', 'Dd-m-YY', 'yyyy/MM/d', 'MM/DD/YY', 'dd/mm/yyyy ', ' dd/mm/yyyy', 'dd/mm/YYYY', 'D-M-YY'):
        for ext in (False, True):
            M.build('Date(%r, is_extensible=%r) after the lower-case format was used' % (bad, ext), lambda: ME.Date(bad, is_extensible=ext), (T_VALUE,))
            M.build('Date([d/m/yy, %r])' % bad, lambda: ME.Date(['d/m/yy', bad], is_extensible=ext), (T_VALUE,))


def run_date_invalid(M, case):
    for bad in ['dd/mm/yy/yy', 'mm/yyyy/dd', 'd.m.yy', '', 'dd-mm/yyyy', 'yyyy/dd/mm', 'dd/mm', 'ddd/mm/yyyy', 'dd/mm/yyy', 'dd mm yyyy', 5, 1.5, True,
                b'dd/mm/yyyy', ['dd/mm/yyyy', 5], ['dd/mm/yyyy', 'x'], [None], {'dd/mm/yyyy': 1} if False else ['d/m'], ['']]:
        M.build('Date(%r)' % (bad,), lambda: ME.Date(bad), (T_VALUE,))
    for good in ['dd/mm/yyyy', 'DD/MM/YYYY' if False else 'd-m-yy', ['yyyy/mm/dd', 'd/m/yy'], None, date_formats()]:
        M.build('Date(%r)' % (good if good is None or len(str(good)) < 50 else 'all',), lambda: ME.Date(good))


# =========================================================================== defaults, limits, lists (deterministic extras)
def run_defaults(M, case):
    """constructors called without range arguments: the documented default range is 0..2147483647"""
    LIM = 2147483647
    cands = [0, 1, 9, 10, 128, LIM - 1, LIM, LIM + 1, 2999999999, 3000000000, 4294967295, 4294967296, 9999999999, 10000000000, 99999999999]
    if case['family'] == 'int':
        for variant in INT_VARIANTS:
            mk = {'int': lambda: ME.Integer(), 'int+sign': lambda: ME.Integer(include_sign=True), 'pos': lambda: ME.PositiveInteger(),
                  'neg': lambda: ME.NegativeInteger(), 'uns': lambda: ME.UnsignedInteger()}[variant]
            p = M.build('%s()' % variant, mk)
            if p is None:
                continue
            sign = {'int': '', 'int+sign': '-', 'pos': '+', 'neg': '-', 'uns': ''}[variant]
            for v in cands:
                tok = sign + str(v)
                if variant in ('pos', 'neg') and v == 0:
                    continue
                got = p.is_exact_match(tok)
                M.expect(got == (v <= LIM), 'meta:accepts-invalid' if got else 'meta:rejects-valid',
                         '%s().is_exact_match(%r) is %r (default range, out of range)' % (variant, tok, got), 'int-defaults')
                g2 = p.get_matches(' ' + tok + ' ')
                M.expect((g2 == [tok]) == (v <= LIM) and (v <= LIM or g2 == []), 'meta:wrong-matches',
                         '%s().get_matches(%r) = %r (default range, out of range)' % (variant, ' ' + tok + ' ', g2), 'int-defaults')
    else:
        for variant, (sg, mk) in DEC_VARIANTS.items():
            for kw in ({}, {'min_decimal': 2}, {'max_decimal': 3}):
                what = '%s(%s)' % (variant, ','.join('%s=%r' % kv for kv in kw.items()))
                p = M.build(what, lambda: mk(**kw))
                if p is None:
                    continue
                sign = {'': '', 'opt': '-', 'pos': '+', 'neg': '-', 'uns': ''}[sg]
                for v in cands:
                    tok = sign + str(v) + '.25'
                    got = p.is_exact_match(tok)
                    M.expect(got == (v <= LIM), 'meta:accepts-invalid' if got else 'meta:rejects-valid',
                             '%s.is_exact_match(%r) is %r (default range, int-part out of range)' % (what, tok, got), 'dec-defaults')


def run_big_bounds(M, case):
    """length bounds far beyond anything a small counter holds"""
    for (mn, mx) in ((2, 70000), (0, 65536), (1, 65535), (65536, 65537), (300, 300), (257, None)):
        for what, mk, ch in (('Word(%r,%r)' % (mn, mx), lambda: ME.Word(mn, mx) if mn else ME.Word(max_chars=mx), 'a'),
                             ('Numeral(10,%r,%r)' % (mn, mx), lambda: ME.Numeral(10, mn, mx), '5'),
                             ('Numeral(2,%r,%r,ext)' % (mn, mx), lambda: ME.Numeral(2, mn, mx, is_extensible=True), '1')):
            if what.startswith('Word') and mn == 0:
                continue
            p = M.build(what, mk)
            if p is None:
                continue
            for L in sorted({max(mn - 1, 1), max(mn, 1), mn + 1, (mx or mn + 5) - 1, (mx or mn + 5), (mx or mn + 5) + 1, (mx or mn) + 4465}):
                t = ch * L
                exp = L >= mn and (mx is None or L <= mx)
                got = p.is_exact_match(t)
                M.expect(got == exp, 'meta:accepts-invalid' if got else 'meta:rejects-valid', '%s.is_exact_match(%r*%d) is %r (length bound)' % (what, ch, L, got), 'big-bounds')
                if 'ext' not in what:
                    g2 = [m for m in p.get_matches(' ' + t + ' ') if m != '' or mn > 0]     # (zero-length numerals of n_min=0 are not judged)
                    M.expect(g2 == ([t] if exp else []), 'meta:wrong-matches', '%s.get_matches(%r*%d) finds %d match(es) (length bound)' % (what, ch, L, len(g2)), 'big-bounds')


def run_prefix_affix(M, case):
    """affix lists in which one affix is a prefix / suffix of another, asked through every matching method"""
    lists = [['a', 'ab'], ['ab', 'a'], ['b', 'b.c'], ['re', 're+d'], ['x', 'xy', 'xyz'], ['ing', 'g'], ['un', 'u'], ['a', 'aa', 'aaa'], ['é', 'éa']]
    wc = '[A-Za-z0-9_]'
    for affs in lists:
        alt = '|'.join(re.escape(a) for a in affs)
        for cls, tmpl in ((ME.WordContains, '(?:%s)*(?:%s)(?:%s)*' % (wc, alt, wc)), (ME.WordStartsWith, '(?:%s)(?:%s)*' % (alt, wc)), (ME.WordEndsWith, '(?:%s)*(?:%s)' % (wc, alt))):
            model = re.compile(tmpl)
            for ext in (False, True):
                what = '%s(%r,is_extensible=%r)' % (cls.__name__, affs, ext)
                p = M.build(what, lambda: cls(list(affs), is_extensible=ext))
                if p is None:
                    continue
                cands = set()
                for a in affs:
                    for pre in ('', 'x', 'zz'):
                        for suf in ('', 'y', 'q1'):
                            cands.add(pre + a + suf)
                cands |= {'x', 'zzq', ''}
                for t in sorted(cands):
                    if t == '' or any(ord(ch) > 127 and ch not in ''.join(affs) for ch in t):
                        continue
                    exp = model.fullmatch(t) is not None
                    got = p.is_exact_match(t)
                    M.expect(got == exp, 'meta:accepts-invalid' if got else 'meta:rejects-valid', '%s.is_exact_match(%r) is %r (affix)' % (what, t, got), 'prefix-affix')
                    p.get_matches('(' + t + ') ' + t)


def run_date_lists(M, case):
    """format lists with repeated entries, of every length up to and beyond the size of the format table"""
    fmts = date_formats()
    rnd = random.Random(case['seed'])
    lists = [[fmts[0], fmts[0]], [fmts[3], fmts[10], fmts[3]], fmts[:3] * 16, fmts[:4] * 12, fmts[:47] + [fmts[0]], fmts + fmts[:1], fmts * 2, [fmts[5]] * 48,
             fmts[:24] * 2, list(reversed(fmts))]
    for L in lists:
        sel = list(dict.fromkeys(L))
        for ext in (False, True):
            what = 'Date(<%d entries, %d distinct>,is_extensible=%r)' % (len(L), len(sel), ext)
            p = M.build(what, lambda: ME.Date(list(L), is_extensible=ext))
            if p is None:
                continue
            models = [date_model(f) for f in sel]
            for f in rnd.sample(fmts, 12) + sel[:3]:
                sep = '-' if '-' in f else '/'
                s = sep.join(BASEV[x] for x in f.split(sep))
                exp = any(m.fullmatch(s) for m in models)
                got = p.is_exact_match(s)
                M.expect(got == exp, 'meta:accepts-invalid' if got else 'meta:rejects-valid', '%s.is_exact_match(%r) is %r (format %s)' % (what, s, got, f), 'date-lists')
    # a table-sized list with one undocumented entry must still be refused
    for bad in ('dd/xx/yyyy', 'yyyy/dd/mm', '', 'DD/MM/YYYY'):
        for L in (fmts[:47] + [bad], [bad] + fmts[1:], fmts[:2] + [bad], [fmts[0]] * 47 + [bad]):
            M.build('Date(<%d entries incl. invalid %r>)' % (len(L), bad), lambda: ME.Date(list(L)), (T_VALUE,))


# =========================================================================== cases per check
def is_c03(symptom):
    return (symptom or '').startswith(('crash:', 'uncompilable:'))


def cases(check, tier, seed, shard, nshards):
    rnd = random.Random((seed * 104729 + shard) * 17 + int(check[1:]))
    big = tier == 'thorough'
    if check == 'C03':
        # every meta family, valid and documented-invalid arguments, under the C03 oracle only
        for sub in ('C15', 'C16', 'C17', 'C18', 'C19'):
            for i, c in enumerate(cases(sub, tier, seed, shard, nshards)):
                if c['kind'].endswith('-invalid') or i % (1 if big else 6) == 0:
                    if 'strings' in c:
                        c = dict(c, strings=c['strings'][:20])
                    if 'octets' in c:
                        c = dict(c, octets=c['octets'][:6])
                    yield c
        return
    if check == 'C15':
        if shard == 0:
            yield {'kind': 'int-invalid'}
        if shard == 1 % nshards:
            yield {'kind': 'defaults', 'family': 'int'}
        # core ranges: every variant, extensible and not, whatever the shuffle below assigns (single-value ranges,
        # ranges whose digits concatenate to the same string in one process, the documented examples)
        CORE = [(0, 0), (1, 1), (7, 7), (10, 10), (99, 99), (120, 120), (1, 120), (11, 20), (1, 234), (12, 34), (5, 678), (56, 78), (11, 20), (1, 120),
                (3, 10), (50, 1000), (5, 120), (0, 255)]
        for j, (a, b) in enumerate(CORE):
            for k, variant in enumerate(INT_VARIANTS):
                if (j * len(INT_VARIANTS) + k) % nshards == shard or (a, b) in ((1, 120), (11, 20), (1, 234), (12, 34), (5, 678), (56, 78)) and shard == 5 % nshards:
                    yield {'kind': 'int', 'a': a, 'b': b, 'variant': variant, 'seed': rnd.randrange(1 << 30), 'ext': True}
        ranges = boundary_ranges(random.Random(seed * 7 + 15), 640 if not big else 48000)
        for i, (a, b) in enumerate(ranges):
            if i % nshards != shard:
                continue
            variant = INT_VARIANTS[(i // nshards) % len(INT_VARIANTS)]
            yield {'kind': 'int', 'a': a, 'b': b, 'variant': variant, 'seed': rnd.randrange(1 << 30), 'ext': i % 3 == 0}
            if i % 4 == 0:
                yield {'kind': 'int', 'a': a, 'b': b, 'variant': 'int', 'seed': rnd.randrange(1 << 30), 'ext': False}
    elif check == 'C16':
        if shard == 0:
            yield {'kind': 'dec-invalid'}
        if shard == 1 % nshards:
            yield {'kind': 'dec-glue'}
        if shard == 2 % nshards:
            yield {'kind': 'dec-unbounded'}
        if shard == 3 % nshards:
            yield {'kind': 'defaults', 'family': 'dec'}
        n = (200 if not big else 16000) // nshards + 1
        for i in range(n):
            a = rnd.choice([0, 0, 0, 1, 5, 10, 99, 100, 123])
            b = a + rnd.choice([0, 1, 9, 90, 1000, 99999, 2147483647 - a])
            mn = rnd.choice([1, 1, 2, 3])
            mx = rnd.choice([None, mn, mn + 1, mn + 3])
            for variant in DEC_VARIANTS:
                yield {'kind': 'dec', 'a': a, 'b': b, 'mn': mn, 'mx': mx, 'variant': variant, 'seed': rnd.randrange(1 << 30)}
    elif check == 'C17':
        if shard == 0:
            yield {'kind': 'numeral-invalid'}
        if shard == 1 % nshards:
            yield {'kind': 'big-bounds'}
        if shard == 2 % nshards:
            yield {'kind': 'prefix-affix'}
        bounds = [(1, None), (0, None), (1, 1), (2, 2), (1, 3), (0, 2), (3, None), (2, 5), (5, 5), (0, 1), (1, 2), (3, 3)]
        combos = [(base, nmin, nmax) for base in range(2, 17) for (nmin, nmax) in bounds]
        for i, (base, nmin, nmax) in enumerate(combos):
            if i % nshards == shard:
                yield {'kind': 'numeral', 'base': base, 'nmin': nmin, 'nmax': nmax, 'seed': rnd.randrange(1 << 30)}
        n = (1200 if not big else 96000) // nshards
        for i in range(n):
            mn = rnd.choice([1, 1, 2, 3, 5, 6])
            mx = rnd.choice([None, mn, mn + 1, mn + 3, 6, 7])
            if mx is not None and mx < mn:
                mx = mn
            yield {'kind': 'word', 'mn': mn, 'mx': mx, 'glob': rnd.random() < 0.5, 'seed': rnd.randrange(1 << 30)}
    elif check == 'C18':
        octs = list(range(0, 301)) + ['00', '01', '001', '256', '999', '1000', '', '0255', '025']
        for i in range(nshards):
            if i == shard:
                yield {'kind': 'ipv4', 'octets': octs[shard::nshards], 'seed': rnd.randrange(1 << 30)}
        shapes = list(ipv6_shapes(0, 9))
        mine = shapes[shard::nshards]
        for i in range(0, len(mine), 400):
            yield {'kind': 'ipv6', 'strings': mine[i:i + 400], 'seed': rnd.randrange(1 << 30)}
        n = (4000 if not big else 1600000) // nshards
        rs = rand_ipv6(rnd, n)
        for i in range(0, len(rs), 400):
            yield {'kind': 'ipv6', 'strings': rs[i:i + 400], 'seed': rnd.randrange(1 << 30)}
    elif check == 'C19':
        if shard == 0:
            yield {'kind': 'date-invalid'}
        fmts = date_formats()
        for i, f in enumerate(fmts):
            if i % nshards == shard:
                yield {'kind': 'date', 'formats': [f], 'as_list': i % 2 == 0, 'seed': rnd.randrange(1 << 30)}
        if shard % 4 == 0:
            yield {'kind': 'date', 'formats': [], 'all': True, 'seed': rnd.randrange(1 << 30)}
        n = (64 if not big else 6400) // nshards
        for i in range(n):
            k = rnd.choice([2, 3, 5, 8, 16, 30])
            yield {'kind': 'date', 'formats': rnd.sample(fmts, k), 'seed': rnd.randrange(1 << 30)}
        if shard in (0, nshards - 1):
            yield {'kind': 'date-invalid-late'}
        if shard == 2 % nshards:
            yield {'kind': 'date-lists', 'seed': rnd.randrange(1 << 30)}


RUNNERS = {'defaults': run_defaults, 'big-bounds': run_big_bounds, 'prefix-affix': run_prefix_affix, 'date-lists': run_date_lists,
           'date-invalid-late': run_date_invalid_late, 'dec-glue': run_dec_glue, 'dec-unbounded': run_dec_unbounded, 'int': run_int, 'int-invalid': run_int_invalid, 'dec': run_dec, 'dec-invalid': run_dec_invalid, 'numeral': run_numeral,
           'numeral-invalid': run_numeral_invalid, 'word': run_word, 'ipv4': run_ipv4, 'ipv6': run_ipv6, 'date': run_date,
           'date-invalid': run_date_invalid}


CASE_TIMEOUT = 60


class MetaTimeout(BaseException):
    pass


def _alarm(signum, frame):
    raise MetaTimeout()


def sig_of(v):
    sym = v['symptom']
    d = v['detail'] or ''
    tag = ''
    for k in ('leading zero', 'out of range', 'text-start', 'text-end', 'sign rule', 'fraction-length', 'int-part', "with '::'", 'extensible'):
        if k in d:
            tag += '|' + k
    return ':'.join(sym.split(':')[:2]) + tag


def run_shard(ctx):
    check, tier, seed, shard, nshards = ctx['check'], ctx['tier'], ctx['seed'], ctx['shard'], ctx['nshards']
    M = Mon(check)
    t0 = time.time()
    budget = ctx.get('budget', 45)
    keys = set()
    viols = []
    nviol = collections.Counter()
    samples = []
    ncases = 0
    truncated = False
    timeouts = 0
    for case in cases(check, tier, seed, shard, nshards):
        if time.time() - t0 > budget:
            truncated = True
            break
        ncases += 1
        before = len(M.viols)
        old_handler = signal.signal(signal.SIGALRM, _alarm)
        signal.alarm(CASE_TIMEOUT)
        try:
            RUNNERS[case['kind']](M, case)
        except RecursionError:
            M.viols.append({'symptom': 'crash:RecursionError', 'detail': 'while running %r' % (case,)})
        except MetaTimeout:
            # a case that does not finish (backtracking in the library's pattern or in the model) is no verdict
            timeouts += 1
            del M.viols[before:]
            continue
        finally:
            signal.alarm(0)
            signal.signal(signal.SIGALRM, old_handler)
        keys.add(hashlib.blake2b(repr(sorted((k, str(v)) for k, v in case.items() if k != 'seed')).encode(), digest_size=8).hexdigest())
        if ncases % 7 == 1 and len(samples) < 5:
            samples.append({k: (v if not isinstance(v, list) else v[:6]) for k, v in case.items()})
        for v in M.viols[before:]:
            if check == 'C03' and not is_c03(v['symptom']):
                continue
            sig = sig_of(v)
            nviol[sig] += 1
            if nviol[sig] <= 2 and len(viols) < 40:
                viols.append({'property': check, 'sig': sig, 'symptom': v['symptom'], 'detail': v['detail'], 'case': dict(case), 'show': v['detail']})
        del M.viols[before:]
    return {
        'evaluations': M.n, 'cases': ncases, 'keys': sorted(keys), 'violations': viols, 'viol_counts': dict(nviol),
        'other_property_violations': {}, 'stats': {'judged': M.n, 'unspecified': M.unspec}, 'by_op': dict(M.counts), 'samples': samples,
        'monitor_errors': [], 'timeouts': timeouts, 'truncated': truncated,
        'extra': {'distinct_nontrivial': 0, 'distinct_judged_questions': len(M.tokens)},
    }


def replay(case, check, seed=0):
    M = Mon(check)
    RUNNERS[case['kind']](M, case)
    return [{'symptom': v['symptom'], 'detail': v['detail'], 'event': {'op': case['kind']}, 'sig': sig_of(v)} for v in M.viols]


def candidates(case):
    out = []
    for k in ('strings', 'octets', 'formats'):
        if k in case and len(case[k]) > 1:
            n = len(case[k])
            for part in (case[k][:n // 2], case[k][n // 2:]):
                c = dict(case)
                c[k] = part
                out.append(c)
    return out


def features(case, violation):
    tags = {'family:' + case.get('kind', '?')}
    d = violation.get('detail') or ''
    for k, t in (('leading zero', 'leading-zero'), ('out of range', 'out-of-range'), ('text-start', 'text-start'), ('text-end', 'text-end'),
                 ('sign rule', 'sign'), ('fraction-length', 'fraction-length'), ("with '::'", 'double-colon'), ('8 groups', 'eight-groups'),
                 ('is_extensible=True', 'extensible'), ('extensible', 'extensible')):
        if k in d:
            tags.add(t)
    if 'variant' in case:
        tags.add('variant:' + case['variant'])
    return sorted(tags)
