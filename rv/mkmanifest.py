"""writes /verif/MANIFEST.json from the registry (python -m rv.mkmanifest)"""
import json
import os
from . import VERIF_DIR, checks

BASELINE_CMD = "cd /repo && /venv/bin/python -m pytest -ra -q -p no:cacheprovider --timeout=900 --continue-on-collection-errors"

TECH = {
    'rv.dsl': 'runtime monitor: every public builder call judged against a shadow reference model (canonical re parse trees, probe texts)',
    'rv.cls': 'runtime monitor: emitted class scanned over all Unicode code points vs interval-set model, under hash seeds and injected set orders',
    'rv.api': 'runtime monitor: return values of the matching API vs fresh re.compile oracle across call histories; audit hook on open',
    'rv.meta': 'runtime monitor: matching calls on meta patterns judged by numeric/grammar reference models (three-valued)',
    'rv.hist': 'runtime monitor: operand snapshots at every call, fresh-vs-pooled rebuilds, cross-process fingerprints under hash seeds',
}

NOTE = {
    'rv.dsl': 'trusted: CPython re parser/engine; the transcription of the documentation into transfer functions; equality of canonical trees decides all texts, otherwise <= 60 probe texts',
    'rv.cls': 'trusted: CPython re; model tables of the ASCII-defined named classes; code points only \\d \\s \\w add are masked as unspecified',
    'rv.api': 'trusted: CPython re as oracle (fresh compile of str(p) with MULTILINE|DOTALL)',
    'rv.meta': 'trusted: ipaddress module, the numeric models and their UNSPECIFIED regions (letter-adjacent numerals, signs after word characters)',
    'rv.hist': 'trusted: as C02/C07; hash-seed space sampled (4 / 24 seeds)',
}


def main():
    cs = []
    for cid in sorted(checks.SPEC):
        mod, title, rule, _ = checks.SPEC[cid]
        cs.append({
            'property_id': cid,
            'quick_cmd': './check %s quick' % cid,
            'thorough_cmd': './check %s thorough' % cid,
            'evidence_file': 'evidence/%s.json' % cid,
            'replay_cmd_template': './check %s --replay {path}' % cid,
            'engine': mod,
            'level_claimed': {'category': 'exploration',
                              'text': 'held on the executions listed in the evidence: %s. Every verdict comes from an oracle '
                                      'observing real calls into /repo/src/pregex; nothing is proved.' % rule,
                              'design_ref': 'DESIGN.md section 4 / %s' % cid},
            'level_note': NOTE[mod],
            'technique': TECH[mod],
        })
    m = {
        'version': 1,
        'setup_cmd': './check selftest',
        'hooks': {'guard': 'PREGEX_RV',
                  'enable': 'no source change: monitors wrap/drive the public API from outside (PREGEX_RV=1 switches on sys.monitoring coverage and the pytest plugin)',
                  'baseline_off_cmd': BASELINE_CMD,
                  'source_commits': [],
                  'add_only': True},
        'engines': [{'name': k, 'path': 'rv/' + k.split('.')[1] + '.py', 'serves_properties': sorted(c for c in checks.SPEC if checks.SPEC[c][0] == k),
                     'kind_free_text': TECH[k]} for k in TECH],
        'checks': cs,
        'notes': 'All 20 properties are decided by runtime monitoring (DESIGN.md). exit 0 held / 1 VIOLATION / 2 INCONCLUSIVE.',
        'not_applicable': [],
    }
    with open(os.path.join(VERIF_DIR, 'MANIFEST.json'), 'w') as f:
        json.dump(m, f, indent=1)
    print('wrote MANIFEST.json with %d checks' % len(cs))


if __name__ == '__main__':
    main()
