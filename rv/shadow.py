"""Shadow reference model: the executable specification (DESIGN.md section 3.3).

A shadow says what a Pregex object is *supposed to mean* according to the documentation.
It renders to a reference regex in which every operand is wrapped in (?:...) and every
literal character is a numeric escape, so the reference never depends on any grouping or
escaping rule of the code under test.
"""
import re
from . import canon as C

INF = None


class N:
    """shadow node"""
    __slots__ = ('k', 'd')

    def __init__(self, k, **kw):
        self.k = k
        self.d = kw

    def __getattr__(self, a):
        try:
            return self.d[a]
        except KeyError:
            raise AttributeError(a)

    def __repr__(self):
        return self.k + repr(self.d)

    def json(self):
        def j(v):
            if isinstance(v, N):
                return v.json()
            if isinstance(v, (list, tuple)):
                return [j(i) for i in v]
            return v
        if self.k == 'Cls':
            return {'k': 'Cls', 'set': C.show(self.iv, 8)}
        return dict({'k': self.k}, **{a: j(b) for a, b in self.d.items()})

    def shape(self):
        """short structural description used to count distinct cases"""
        k = self.k
        if k == 'Lit':
            return 'Lit(%r)' % self.s
        if k == 'Cls':
            return 'Cls%s' % C.show(self.iv, 3)
        if k == 'Raw':
            return ('Lib(%r)' if self.d.get('lib') else 'Raw(%r)') % self.text
        if k in ('Cat', 'Alt'):
            return k + '[' + ','.join(x.shape() for x in self.xs) + ']'
        if k == 'Quant':
            return 'Q{%s,%s,%s}(%s)' % (self.n, self.m, 'g' if self.greedy else 'l', self.x.shape())
        if k == 'Cap':
            return 'Cap<%s>(%s)' % (self.name, self.x.shape())
        if k == 'Grp':
            return 'Grp%s(%s)' % ('i' if self.ci else '', self.x.shape())
        if k == 'Anchor':
            return '%s(%s)' % (self.kind, self.x.shape())
        if k == 'Look':
            return '%s(%s;%s)' % (self.kind, self.x.shape(), self.a.shape())
        if k == 'Cond':
            return 'Cond<%s>(%s;%s)' % (self.name, self.a.shape(), self.b.shape() if self.b else None)
        if k == 'Backref':
            return 'Ref(%s)' % (self.r,)
        if k == 'Bound':
            return self.t
        return k


EMPTY = N('Empty')


def Lit(s):
    return EMPTY if s == '' else N('Lit', s=s)


def Cls(iv, desc=None):
    return N('Cls', iv=C.norm(iv), desc=desc)


def Raw(text):
    return EMPTY if text == '' else N('Raw', text=text)


def Lib(text):
    """an operand built by another part of the library (a meta pattern): opaque like Raw, but well-formed by
    construction, so compositions over it are judged like any other composition"""
    return EMPTY if text == '' else N('Raw', text=text, lib=True)


class Unspec(Exception):
    """the documentation / property leaves this call's outcome open"""


class Expect(Exception):
    """the call MUST raise one of these library exception types (by name);
    `also` = a shadow that is *also* an acceptable outcome (two documented rules disagree)."""

    def __init__(self, *names, also=None):
        self.names = names
        self.also = also


T_TYPE = 'InvalidArgumentTypeException'
T_VALUE = 'InvalidArgumentValueException'
T_REPEAT = 'CannotBeRepeatedException'
T_WIDTH = 'NonFixedWidthPatternException'
T_EMPTYNEG = 'EmptyNegativeAssertionException'
T_NAME = 'InvalidCapturingGroupNameException'
T_ARGS = 'NotEnoughArgumentsException'


# ----------------------------------------------------------------- reference rendering
def esc(s):
    out = []
    for ch in s:
        o = ord(ch)
        if ch.isascii() and ch.isalnum():
            out.append(ch)
        elif o < 0x100:
            out.append('\\x%02x' % o)
        elif o < 0x10000:
            out.append('\\u%04x' % o)
        else:
            out.append('\\U%08x' % o)
    return ''.join(out)


def cls_ref(iv):
    parts = []
    for a, b in iv:
        parts.append(esc(chr(a)) if a == b else esc(chr(a)) + '-' + esc(chr(b)))
    return '[' + ''.join(parts) + ']'


def g(x):
    return '(?:%s)' % ref(x)


def ref(x):
    k = x.k
    if k == 'Empty':
        return ''
    if k == 'Lit':
        return esc(x.s)
    if k == 'Cls':
        return cls_ref(x.iv)
    if k == 'Raw':
        return '(?:%s)' % x.text
    if k == 'Cat':
        return ''.join(g(i) for i in x.xs)
    if k == 'Alt':
        return '|'.join(g(i) for i in x.xs)
    if k == 'Quant':
        q = '{%d,%s}' % (x.n, '' if x.m is INF else x.m)
        return g(x.x) + q + ('' if x.greedy else '?')
    if k == 'Cap':
        return ('(?P<%s>%s)' % (x.name, ref(x.x))) if x.name else '(%s)' % ref(x.x)
    if k == 'Grp':
        return ('(?i:%s)' if x.ci else '(?:%s)') % ref(x.x)
    if k == 'Anchor':
        b = g(x.x) if x.x.k != 'Empty' else ''
        return {'mas': '\\A' + b, 'mae': b + '\\Z', 'mals': '^' + b, 'male': b + '$'}[x.kind]
    if k == 'Bound':
        return x.t
    if k == 'Look':
        b = g(x.x) if x.x.k != 'Empty' else ''
        a = ref(x.a)
        return {'fol': b + '(?=%s)' % a, 'nfol': b + '(?!%s)' % a,
                'pre': '(?<=%s)' % a + b, 'npre': '(?<!%s)' % a + b,
                'enc': '(?<=%s)' % a + b + '(?=%s)' % a,
                'nenc': '(?<!%s)' % a + b + '(?!%s)' % a}[x.kind]
    if k == 'Backref':
        return '(?:\\%d)' % x.r if isinstance(x.r, int) else '(?P=%s)' % x.r
    if k == 'Cond':
        return '(?(%s)%s%s)' % (x.name, g(x.a) if x.a.k != 'Empty' else '',
                                ('|' + (g(x.b) if x.b.k != 'Empty' else '')) if x.b is not None else '')
    raise KeyError(k)


# ----------------------------------------------------------------- structure queries
def children(x):
    k = x.k
    if k in ('Cat', 'Alt'):
        return list(x.xs)
    if k in ('Quant', 'Cap', 'Grp', 'Anchor'):
        return [x.x]
    if k == 'Look':
        if x.kind in ('pre', 'npre'):
            return [x.a, x.x]
        if x.kind in ('enc', 'nenc'):
            return [x.a, x.x, x.a]
        return [x.x, x.a]
    if k == 'Cond':
        return [x.a] + ([x.b] if x.b is not None else [])
    return []


def walk(x):
    yield x
    for c in children(x):
        yield from walk(c)


def captures(x):
    """names (None = unnamed) of the capturing groups in left-to-right opening order;
    None as a whole if the shadow contains an opaque Raw part."""
    out = []
    for n in walk(x):
        if n.k == 'Raw':
            return None
        if n.k == 'Cap':
            out.append(n.name)
    return out


def free_refs(x):
    """group references that the fragment does not define itself"""
    caps = captures(x)
    if caps is None:
        caps = []
    named = set(c for c in caps if c)
    out = []
    for n in walk(x):
        if n.k == 'Backref':
            if isinstance(n.r, int):
                if n.r > len(caps):
                    out.append(n.r)
            elif n.r not in named:
                out.append(n.r)
        elif n.k == 'Cond' and n.name not in named:
            out.append(n.name)
    return out


def ref_prefix(refs):
    """synthetic prefix that declares the groups a fragment refers to"""
    names = sorted(set(r for r in refs if isinstance(r, str)))
    nums = [r for r in refs if isinstance(r, int)]
    k = max(nums) if nums else 0
    return '()?' * k + ''.join('(?P<%s>)?' % n for n in names)


def has_kind(x, pred):
    return any(pred(n) for n in walk(x))


def is_poslook_or_anchor(n):
    return n.k == 'Anchor' or (n.k == 'Look' and n.kind in ('fol', 'pre', 'enc'))


def direct_nonrep(x):
    return is_poslook_or_anchor(x)


def contains_nonrep(x):
    """True / False / None (unknown because of Raw)"""
    unknown = False
    for n in walk(x):
        if is_poslook_or_anchor(n):
            return True
        if n.k == 'Raw':
            unknown = True
    return None if unknown else False


def width(x):
    """(lo, hi) of the reference rendering as computed by CPython's parser, or None if unknown"""
    refs = free_refs(x)
    if has_kind(x, lambda n: n.k in ('Raw', 'Backref', 'Cond')):
        return None
    p = C.parse(ref_prefix(refs) + ref(x))
    if p.error:
        return None
    return p.width


def struct_width(x):
    """independent structural width computation (cross-check of width())"""
    k = x.k
    if k in ('Empty', 'Bound', 'Anchor', 'Look'):
        if k == 'Anchor' or k == 'Look':
            return struct_width(x.x)
        return (0, 0)
    if k == 'Lit':
        return (len(x.s), len(x.s))
    if k == 'Cls':
        return (1, 1)
    if k == 'Cat':
        ws = [struct_width(i) for i in x.xs]
        if any(w is None for w in ws):
            return None
        return (sum(w[0] for w in ws), sum(w[1] for w in ws))
    if k == 'Alt':
        ws = [struct_width(i) for i in x.xs]
        if any(w is None for w in ws):
            return None
        return (min(w[0] for w in ws), max(w[1] for w in ws))
    if k == 'Quant':
        w = struct_width(x.x)
        if w is None:
            return None
        hi = C.MAXREPEAT if x.m is INF and w[1] > 0 else w[1] * (x.m if x.m is not INF else 0)
        return (w[0] * x.n, min(hi, C.MAXREPEAT))
    if k in ('Cap', 'Grp'):
        return struct_width(x.x)
    return None


def variably_repeated_zero_width(x):
    for n in walk(x):
        if n.k == 'Quant' and n.n != n.m:
            w = struct_width(n.x)
            if w is not None and w == (0, 0):
                return True
    return False


# ----------------------------------------------------------------- transfer functions
def operand(v):
    """a value in a pattern position: str -> Lit, shadow -> itself, anything else -> type error"""
    if isinstance(v, N):
        return v
    if isinstance(v, str):
        return Lit(v)
    raise Expect(T_TYPE)


def cat(xs):
    out = []
    for x in xs:
        if x.k == 'Empty':
            continue
        out += x.xs if x.k == 'Cat' else [x]
    return EMPTY if not out else out[0] if len(out) == 1 else N('Cat', xs=out)


def alt(xs):
    if not xs:
        return EMPTY
    if xs[0].k == 'Empty' and any(x.k != 'Empty' for x in xs[1:]):
        raise Unspec('first-empty-alternative')
    out = []
    for x in xs:
        if x.k == 'Empty':
            continue
        out += x.xs if x.k == 'Alt' else [x]
    return EMPTY if not out else out[0] if len(out) == 1 else N('Alt', xs=out)


def enclose(x, e):
    return cat([e, x, e])


def _isint(v):
    return isinstance(v, int) and not isinstance(v, bool)


def check_bounds(n, m, has_m, m_may_be_none):
    """documented validation of quantifier bounds: returns list of acceptable exception names"""
    bad = []
    if not _isint(n):
        bad.append(T_TYPE)
    if has_m and not _isint(m) and not (m is None and m_may_be_none):
        bad.append(T_TYPE)
    if not bad:
        if n < 0:
            bad.append(T_VALUE)
        if has_m and m is not None and (m < 0 or m < n):
            bad.append(T_VALUE)
    return bad


def quant(x, n, m, greedy=True, bad=()):
    """x repeated n..m times (m None = unbounded). `bad`: names from check_bounds."""
    bad = list(bad)
    if bad:
        if direct_nonrep(x):
            bad.append(T_REPEAT)
        raise Expect(*bad)
    if m is not INF and m >= C.MAXREPEAT or n >= C.MAXREPEAT:
        raise Unspec('bound>=MAXREPEAT')
    repeating = (m is INF or m > 1)
    if (n, m) == (0, 0):
        return EMPTY
    if x.k == 'Empty':
        return EMPTY
    if (n, m) == (1, 1):
        return x
    if repeating:
        if direct_nonrep(x):
            raise Expect(T_REPEAT)
        c = contains_nonrep(x)
        if c or c is None:
            raise Unspec('repeat-of-operand-containing-anchor')
    return N('Quant', x=x, n=n, m=m, greedy=bool(greedy) or n == m)


def valid_group_name(name):
    return isinstance(name, str) and re.fullmatch('[A-Za-z_][A-Za-z_0-9]*', name) is not None


def check_name(name, optional=True):
    if name is None and optional:
        return
    if not isinstance(name, str):
        raise Expect(T_TYPE)
    if not valid_group_name(name):
        if re.fullmatch(r'[^\W\d]\w*', name):
            # word characters only, non-digit start, but outside ASCII: the docs' wording
            # ("word characters") and Python's identifier rule part ways
            raise Unspec('non-ascii-group-name')
        raise Expect(T_NAME)


def foreign_group(text):
    """a raw pattern that is, as a whole, one special group other than (?:..), (?i:..), a named group, a reference,
    a conditional, a comment or a lookaround - e.g. (?s:..), (?-i:..), (?ims:..), (?>..)"""
    if not re.match(r'\(\?(?!:|i:|P<|P=|\(|#|=|!|<)', text):
        return False
    p = C.parse(text)
    return (not p.error) and len(p.tree) == 1 and p.groups == sum(1 for _ in re.finditer(r'\((?!\?)|\(\?P<', text)) and text.endswith(')') and _one_group(text)


def _one_group(text):
    depth = 0
    i = 0
    while i < len(text):
        ch = text[i]
        if ch == '\\':
            i += 2
            continue
        if ch == '[':
            j = text.find(']', i + 2)
            i = (j if j > 0 else len(text)) + 1
            continue
        if ch == '(':
            depth += 1
        elif ch == ')':
            depth -= 1
            if depth == 0 and i != len(text) - 1:
                return False
        i += 1
    return depth == 0


def capture(x, name=None):
    ambiguous = False
    try:
        check_name(name)
    except Unspec:
        # a name of word characters outside ASCII: whether it is refused is left open, but if it is accepted
        # the result must be the group with exactly that name
        if not (isinstance(name, str) and name.isidentifier()):
            raise
        ambiguous = True
    if x.k == 'Empty':
        return x
    if x.k == 'Raw' and foreign_group(x.text):
        # a group the library does not know how to convert (other inline flags, atomic): it can only be wrapped
        out = N('Cap', x=x, name=name)
        if ambiguous:
            raise Expect(T_NAME, also=out)
        return out
    if x.k == 'Raw':
        raise Unspec('capture-of-raw')
    if x.k == 'Cap':
        out = N('Cap', x=x.x, name=name if name is not None else x.name)
    elif x.k == 'Grp' and not x.ci:
        out = N('Cap', x=x.x, name=name)
    else:
        out = N('Cap', x=x, name=name)
    if ambiguous:
        raise Expect(T_NAME, also=out)
    return out


def group(x, ci=False):
    if x.k == 'Empty':
        return x
    if x.k == 'Raw' and foreign_group(x.text):
        return N('Grp', x=x, ci=bool(ci))
    if x.k == 'Raw':
        raise Unspec('group-of-raw')
    if x.k in ('Cap', 'Grp'):
        return N('Grp', x=x.x, ci=bool(ci))
    return N('Grp', x=x, ci=bool(ci))


def look(kind, x, a):
    if a.k == 'Empty':
        if kind in ('fol', 'pre', 'enc'):
            return x
        raise Expect(T_EMPTYNEG)
    if kind in ('pre', 'npre', 'enc', 'nenc'):
        w = width(a)
        if w is None:
            raise Unspec('lookbehind-width-unknown')
        sw = struct_width(a)
        if sw is not None and (sw[0] == sw[1]) != (w[0] == w[1]):
            raise MonitorError('width disagreement %r %r for %s' % (w, sw, ref(a)))
        if variably_repeated_zero_width(a):
            raise Unspec('variably-repeated-zero-width')
        if w[0] != w[1]:
            raise Expect(T_WIDTH)
    return N('Look', kind=kind, x=x, a=a)


def lookaround(kind, x, assertions):
    if len(assertions) < 1:
        raise Expect(T_ARGS)
    for a in assertions:
        x = look(kind, x, a)
    return x


def anchor(kind, x):
    return N('Anchor', kind=kind, x=x)


def backref(r):
    if isinstance(r, bool) or not isinstance(r, (int, str)):
        raise Expect(T_TYPE)
    if isinstance(r, int):
        if r < 1 or r > 99:
            raise Expect(T_VALUE)
        if r > 10:
            raise Unspec('backreference 11..99: docstring says 10, message says 99')
    else:
        check_name(r, optional=False)
    return N('Backref', r=r)


def conditional(name, a, b):
    check_name(name, optional=False)
    return N('Cond', name=name, a=a, b=b)


class MonitorError(Exception):
    """the monitor/model contradicts itself: run is inconclusive, never a violation"""


# ----------------------------------------------------------------- language sampling (for probes)
def sample(x, rnd, depth=0):
    """a text in (or near) the language of the shadow; lookarounds/anchors are ignored"""
    k = x.k
    if k == 'Empty' or k == 'Bound':
        return ''
    if k == 'Lit':
        return x.s
    if k == 'Cls':
        # prefer printable ASCII members, never code points of the shorthand mask
        iv = x.iv
        cands = C.inter(iv, ((32, 126),)) or C.inter(iv, ((0, 0x2FF),)) or iv
        cands = C.diff(cands, C.mask()) or cands
        a, b = cands[rnd.randrange(len(cands))]
        return chr(rnd.randint(a, min(b, a + 40)))
    if k == 'Raw':
        return _sample_tree(C.parse(x.text).tree, rnd) if not C.parse(x.text).error else 'a'
    if k == 'Cat':
        return ''.join(sample(i, rnd, depth + 1) for i in x.xs)
    if k == 'Alt':
        return sample(rnd.choice(x.xs), rnd, depth + 1)
    if k == 'Quant':
        hi = x.m if x.m is not INF else x.n + 2
        hi = min(hi, x.n + 3)
        r = rnd.randint(x.n, hi)
        return ''.join(sample(x.x, rnd, depth + 1) for _ in range(min(r, 6)))
    if k in ('Cap', 'Grp', 'Anchor'):
        return sample(x.x, rnd, depth + 1)
    if k == 'Look':
        a = sample(x.a, rnd, depth + 1) if rnd.random() < 0.8 else ''
        s = sample(x.x, rnd, depth + 1)
        if x.kind in ('pre', 'npre'):
            return a + s
        if x.kind in ('fol', 'nfol'):
            return s + a
        return a + s + a
    if k == 'Backref':
        return 'a'
    if k == 'Cond':
        return sample(x.a if (x.b is None or rnd.random() < 0.5) else x.b, rnd, depth + 1)
    return ''


def _sample_tree(tree, rnd, depth=0):
    """a text walked off a real parse tree (so that probes also come from the *real* side)"""
    import re._constants as sc
    out = []
    if tree is None or depth > 12:
        return ''
    for op, av in tree:
        if op is sc.LITERAL:
            out.append(chr(av))
        elif op is sc.NOT_LITERAL:
            out.append('x' if av != 120 else 'y')
        elif op is sc.ANY:
            out.append(rnd.choice('a\n.'))
        elif op is sc.IN:
            c = C._canon_in(av)[1]
            cands = C.inter(c, ((32, 126),)) or c
            cands = C.diff(cands, C.mask()) or cands
            if cands:
                a, b = cands[rnd.randrange(len(cands))]
                out.append(chr(rnd.randint(a, min(b, a + 40))))
        elif op is sc.BRANCH:
            out.append(_sample_tree(rnd.choice(av[1]), rnd, depth + 1))
        elif op in (sc.MAX_REPEAT, sc.MIN_REPEAT, sc.POSSESSIVE_REPEAT):
            lo, hi, body = av
            r = rnd.randint(int(lo), min(int(hi), int(lo) + 2))
            out.append(''.join(_sample_tree(body, rnd, depth + 1) for _ in range(min(r, 5))))
        elif op is sc.SUBPATTERN:
            out.append(_sample_tree(av[3], rnd, depth + 1))
        elif op is sc.ASSERT:
            if rnd.random() < 0.7:
                out.append(_sample_tree(av[1], rnd, depth + 1))
        elif op is sc.GROUPREF_EXISTS:
            out.append(_sample_tree(av[1] if (not av[2] or rnd.random() < 0.5) else av[2], rnd, depth + 1))
        elif op is sc.ATOMIC_GROUP:
            out.append(_sample_tree(av, rnd, depth + 1))
    return ''.join(out)
