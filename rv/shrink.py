"""Greedy shrinking of a violating case (DESIGN.md section 3.9): keep a smaller case while the
same monitor reports the same symptom class."""
import copy
import time


def symptom_class(sym):
    sym = sym or ''
    parts = sym.split(':')
    if parts[0] in ('unexpected-exception', 'missing-exception', 'wrong-exception', 'crash', 'uncompilable'):
        return ':'.join(parts[:2])
    return parts[0] if parts[0] not in ('semantic', 'groups', 'class', 'api', 'meta') else ':'.join(parts[:2])


def size_of(x):
    if isinstance(x, dict):
        return 1 + sum(size_of(v) for v in x.values())
    if isinstance(x, (list, tuple)):
        return 1 + sum(size_of(v) for v in x)
    if isinstance(x, str):
        return 1 + len(x)
    return 1


def dsl_candidates(prog):
    """smaller variants of a DSL program tree"""
    out = []

    def paths(node, path):
        yield path, node
        if isinstance(node, dict) and 'x' in node:
            for i, c in enumerate(node['x']):
                yield from paths(c, path + [i])

    def replace(root, path, new):
        if not path:
            return new
        root = copy.deepcopy(root)
        n = root
        for i in path[:-1]:
            n = n['x'][i]
        n['x'][path[-1]] = new
        return root

    for path, node in paths(prog, []):
        if not isinstance(node, dict):
            continue
        if 'x' in node:
            for c in node['x']:
                out.append(replace(prog, path, c))
            if len(node['x']) > 2 and node['o'] in ('cat', 'alt', 'enc', 'fol', 'nfol', 'pre', 'npre', 'lenc', 'nlenc'):
                for i in range(len(node['x'])):
                    n2 = dict(node)
                    n2['x'] = node['x'][:i] + node['x'][i + 1:]
                    out.append(replace(prog, path, n2))
            if path:
                out.append(replace(prog, path, {'o': 'lit', 's': 'z'}))
            if 'f' in node:
                n2 = {k: v for k, v in node.items() if k != 'f'}
                out.append(replace(prog, path, n2))
            for k, small in (('n', 2), ('n', 1), ('m', None), ('name', None), ('ci', False), ('g', True)):
                if k in node and node[k] != small and not (k == 'name' and node['o'] == 'cond'):
                    n2 = dict(node)
                    n2[k] = small
                    out.append(replace(prog, path, n2))
        else:
            o = node.get('o')
            if o in ('lit', 'plit', 'raw') and len(node['s']) > 1:
                s = node['s']
                for i in range(len(s)):
                    n2 = dict(node)
                    n2['s'] = s[:i] + s[i + 1:]
                    out.append(replace(prog, path, n2))
            if o == 'from' and len(node['cs']) > 1:
                for i in range(len(node['cs'])):
                    n2 = dict(node)
                    n2['cs'] = node['cs'][:i] + node['cs'][i + 1:]
                    out.append(replace(prog, path, n2))
            if o == 'empty' and node.get('k', 0) != 0:
                out.append(replace(prog, path, {'o': 'empty', 'k': 0}))
    return out


def shrink(mod, job):
    case = job['case']
    check = job['check']
    target = symptom_class(job['symptom'])
    budget = job.get('budget', 300)
    t0 = time.time()
    runs = 0
    cands_of = getattr(mod, 'candidates', None)
    if cands_of is None:
        return {'case': case, 'runs': 0}
    improved = True
    last = None
    while improved and runs < budget and time.time() - t0 < job.get('time', 40):
        improved = False
        cands = cands_of(case)
        cands.sort(key=size_of)
        for c in cands:
            if size_of(c) >= size_of(case):
                continue
            runs += 1
            if runs > budget or time.time() - t0 > job.get('time', 40):
                break
            try:
                vs = mod.replay(c, check, job.get('seed', 0))
            except Exception:
                continue
            hit = [v for v in vs if symptom_class(v['symptom']) == target]
            if hit:
                case = c
                last = hit[0]
                improved = True
                break
    return {'case': case, 'runs': runs, 'violation': last}
