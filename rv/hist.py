"""C20 - Pregex objects are immutable values; results do not depend on history.

(a) operand preservation: snapshots of every operand around every call (interp/cls `call`) and of
    every pooled object at the end of the shard;
(b) history independence: every program is built from fresh leaves and again from a pool of shared
    sub-objects that have been compiled, matched with, used as operands elsewhere and aliased;
(c) configuration independence: the same program list is built under several PYTHONHASHSEEDs in
    separate processes and the coordinator compares semantic fingerprints offline.
"""
import collections
import hashlib
import json
import random
import signal
import time

from . import canon as C
from . import gen as G
from . import dsl
from . import cls as K
from .interp import Interp, Pregex, QU, GR, OP, LIBEXC, snapshot, show


class PoolInterp(Interp):
    """evaluates programs re-using one shared object per distinct sub-expression"""

    def __init__(self, *a, **kw):
        super().__init__(*a, **kw)
        self.pool = {}
        self.first_snap = {}
        self.abuse_rnd = random.Random(99)
        self.reused = 0
        self.abuses = collections.Counter()

    def ev(self, t):
        # the call form is part of the identity of a sub-expression: cat(..;left=True) means
        # a.concat(b, on_right=False) in method form and Concat(a, b) in class form
        key = t.get('f', self.form) + '|' + json.dumps(t, sort_keys=True, ensure_ascii=True, default=repr)
        hit = self.pool.get(key)
        if hit is not None:
            self.reused += 1
            return hit
        r, s = super().ev(t)
        if isinstance(r, Pregex):
            self.pool[key] = (r, s)
            self.first_snap[key] = snapshot(r)
            self.abuse(r)
        return r, s

    def abuse(self, obj):
        # (runs inside run_program's own watchdog: the outer alarm is re-armed afterwards)
        old = signal.signal(signal.SIGALRM, _probe_alarm)
        prev = signal.alarm(4)
        try:
            self._abuse(obj)
        except ProbeTimeout:
            PROBE_STATS['abuse_timeouts'] += 1
        finally:
            signal.alarm(0)
            signal.signal(signal.SIGALRM, old)
            if prev:
                signal.alarm(prev)

    def _abuse(self, obj):
        r = self.abuse_rnd
        if len(self.pool) % 7 == 0:
            # endurance: many matching calls on one instance (use counters, auto-compilation thresholds)
            self.abuses['hammer'] += 1
            try:
                for k in range(70):
                    (obj.has_match, obj.is_exact_match, obj.get_matches)[k % 3]('a\nb ab')
            except Exception:
                pass
        for _ in range(r.choice([0, 1, 2, 3])):
            k = r.randrange(8)
            self.abuses[k] += 1
            try:
                if k == 0:
                    obj.compile()
                elif k == 1:
                    obj.get_compiled_pattern(False)
                elif k == 2:
                    obj.get_compiled_pattern(True)
                elif k == 3:
                    obj.has_match('abc a\nb $')
                    obj.get_matches('xyz')
                elif k == 4:
                    (obj + 'x').has_match('x')
                elif k == 5:
                    QU.Optional(obj)
                    GR.Capture(obj)
                elif k == 6:
                    alias = obj.concat(Pregex())
                    alias.compile()
                elif k == 7:
                    Pregex.purge()
                    next(obj.iterate_matches('aaa'), None)
            except LIBEXC:
                pass
            except Exception:
                pass


class PoolClsInterp(K.ClsInterp):
    """class programs evaluated with one shared instance per distinct class-valued sub-expression"""

    def __init__(self, *a, **kw):
        super().__init__(*a, **kw)
        self.pool = {}
        self.first_snap = {}
        self.reused = 0
        self.abuse_rnd = random.Random(7)

    def ev(self, t):
        if t.get('o') in ('chr', 'tokv', 'bad', 'frombad', 'btwbad'):
            return super().ev(t)
        key = json.dumps(t, sort_keys=True, ensure_ascii=True, default=repr)
        hit = self.pool.get(key)
        if hit is not None:
            self.reused += 1
            return hit
        r, m = super().ev(t)
        if isinstance(r, Pregex):
            self.pool[key] = (r, m)
            self.first_snap[key] = snapshot(r)
            k = self.abuse_rnd.randrange(5)
            try:
                if k == 0:
                    r.compile()
                elif k == 1:
                    r.has_match('abc_-')
                elif k == 2:
                    (r + 'x').get_matches('ax')
                elif k == 3:
                    r.exactly(1).get_compiled_pattern(False)
            except Exception:
                pass
        return r, m


class ProbeTimeout(BaseException):
    pass


def _probe_alarm(signum, frame):
    raise ProbeTimeout()


PROBE_STATS = collections.Counter()
PROBE_TEXT = 'ab a\nb 12 $x.(aB) -3.5|a'


def behaviour_differs(obj, text):
    """'' when obj.get_matches / has_match on the probe text are what a fresh re.compile of its own pattern gives"""
    import re as _re
    try:
        c = _re.compile(text, _re.M | _re.S)
    except Exception:
        return ''
    # nested quantifiers of deep random programs can backtrack for ages even on a short text: bounded, and a
    # probe that does not finish is no verdict
    old = signal.signal(signal.SIGALRM, _probe_alarm)
    signal.alarm(2)
    try:
        want = [m.group(0) for m in c.finditer(PROBE_TEXT)]
        got = obj.get_matches(PROBE_TEXT)
        has = obj.has_match(PROBE_TEXT)
    except ProbeTimeout:
        PROBE_STATS['timeouts'] += 1
        return ''
    except Exception as e:
        return 'raised %s: %s on matching' % (type(e).__name__, e)
    finally:
        signal.alarm(0)
        signal.signal(signal.SIGALRM, old)
    if got != want:
        return 'finds %r where its pattern finds %r' % (got[:6], want[:6])
    if has != bool(want):
        return 'has_match is %r although its pattern finds %r' % (has, want[:3])
    return ''


def cls_fp(status, events, text):
    last = events[-1] if events else {}
    if status == 'done' and text is not None and C.set_of_single(text) is not None:
        return hashlib.blake2b(repr(C.unmask(C.set_of_single(text))).encode(), digest_size=6).hexdigest()
    return 'exc:' + str(last.get('symptom') or last.get('verdict'))


def fp_of(status, text):
    if status != 'done' or text is None:
        return 'status:' + status
    p = C.parse(text)
    if p.error:
        return 'err:' + p.error
    return hashlib.blake2b(repr(p.key).encode('utf-8', 'surrogatepass'), digest_size=6).hexdigest()


def programs(tier, seed, part, nparts):
    progs = [it for i, it in enumerate(G.w3_depth1(True)) if i % nparts == part]
    if tier == 'quick':
        progs = progs[::3]
    progs += [it for i, it in enumerate(dsl.backref_programs()) if i % nparts == part]
    progs += [it for i, it in enumerate(dsl.qseq_programs()) if i % nparts == part]
    progs += [{k: v for k, v in it.items() if k not in ('hole', 'pos')} for i, it in enumerate(G.twin_programs()) if i % nparts == part]
    rnd = random.Random((seed * 1013 + part) * 3 + 20)
    progs += list(G.w4_random(rnd, (2400 if tier == 'quick' else 24000) // nparts))
    return progs


def run_shard(ctx):
    check, tier, seed = ctx['check'], ctx['tier'], ctx['seed']
    part, nparts = ctx['part'], ctx['nparts']
    t0 = time.time()
    budget = ctx.get('budget', 45)
    I = Interp(seed=seed * 31 + part)
    P = PoolInterp(seed=seed * 31 + part)
    keys = set()
    viols = []
    nviol = collections.Counter()
    fps = {}
    textfp = {}
    samples = []
    evaluations = 0
    ncases = 0
    compared = 0
    probed = 0
    truncated = False

    def report(sym, detail, case, showp):
        sig = sym
        nviol[sig] += 1
        if nviol[sig] <= 3 and len(viols) < 40:
            viols.append({'property': 'C20', 'sig': sig, 'symptom': sym, 'detail': detail, 'case': case, 'show': showp})
    progs = programs(tier, seed, part, nparts)
    order = list(range(len(progs)))
    if ctx.get('order') == 'reversed':
        order.reverse()
    elif ctx.get('order') == 'shuffled':
        random.Random(seed * 7 + part).shuffle(order)
    for idx in order:
        item = progs[idx]
        if time.time() - t0 > budget:
            truncated = True
            break
        ncases += 1
        prog = G.strip_forms(item['prog'])
        form = item.get('form', 'c')
        st1, ev1, t1 = I.run_program(prog, form)
        evaluations += len(ev1)
        for e in ev1:
            if dsl.nontrivial(e):
                keys.add(dsl.key_of(e))
            if e.verdict == 'viol' and e.symptom == 'mutated-operand':
                report('mutated-operand', e.detail, {'kind': 'hist-dsl', 'prog': prog, 'form': form}, show(prog))
        st2, ev2, t2 = P.run_program(prog, form)
        evaluations += len(ev2)
        for e in ev2:
            if e.verdict == 'viol' and e.symptom == 'mutated-operand':
                report('mutated-operand', e.detail, {'kind': 'hist-dsl', 'prog': prog, 'form': form, 'pooled': True}, show(prog))
        clean = not any(e.verdict == 'viol' for e in ev1 + ev2)
        # behaviour, not only text: what a freshly built / a pooled object finds must be what its own pattern finds;
        # every third fresh object is then compiled (retained) and dropped, so that state which a dead object leaves
        # behind (class-level tables, id()-keyed caches) meets the objects built after it
        for which, obj, txt in (('fresh', I.last_real if st1 == 'done' else None, t1), ('pooled', P.last_real if st2 == 'done' else None, t2)):
            if obj is None or (idx + (which == 'pooled')) % 2:
                continue
            why = behaviour_differs(obj, txt)
            probed += 1
            if why:
                report('history-dependent', 'a %s object with pattern %r %s' % (which, txt, why),
                       {'kind': 'hist-dsl', 'prog': prog, 'form': form, 'history': True}, show(prog))
        if st1 == 'done' and idx % 3 == 0:
            try:
                I.last_real.compile()
            except Exception:
                pass
        I.last_real = None
        if st1 == 'done' and st2 == 'done':
            compared += 1
            a, b = C.parse(t1), C.parse(t2)
            if (a.error or b.error) and t1 != t2 or (not a.error and not b.error and a.key != b.key):
                report('history-dependent', 'fresh build gives %r, build from reused (compiled / matched / aliased) sub-objects gives %r' % (t1, t2),
                       {'kind': 'hist-dsl', 'prog': prog, 'form': form, 'history': True}, show(prog))
        elif clean and (st1 == 'done') != (st2 == 'done') and 'timeout' not in (st1, st2):
            report('history-dependent', 'fresh build ends %s, pooled build ends %s' % (st1, st2),
                   {'kind': 'hist-dsl', 'prog': prog, 'form': form, 'history': True}, show(prog))
        fps['d%d/%d' % (part, idx)] = fp_of(st1, t1)
        textfp['d%d/%d' % (part, idx)] = hashlib.blake2b((t1 or '').encode('utf-8', 'surrogatepass'), digest_size=4).hexdigest()
        if idx % 211 == 5 and len(samples) < 4:
            samples.append({'program': show(prog), 'fresh': t1, 'from_pool': t2, 'pool_size': len(P.pool)})
    # pooled objects must still be what they were when first built
    changed = 0
    for key, (r, s) in P.pool.items():
        if snapshot(r) != P.first_snap[key]:
            changed += 1
            report('mutated-operand', 'pooled object %s changed from %r to %r over the shard' % (key[:80], P.first_snap[key][:2], snapshot(r)[:2]),
                   {'kind': 'hist-pool', 'node': json.loads(key.split('|', 1)[1]), 'form': key.split('|', 1)[0]}, key[:100])
    # classes: same regime (fresh vs one shared instance per distinct sub-expression)
    KI = K.ClsInterp(seed)
    KI.scan_sample = False
    PK = PoolClsInterp(seed)
    PK.scan_sample = False
    cprogs = class_programs(tier, seed, part, nparts)
    ccompared = 0
    corder = list(range(len(cprogs)))
    if ctx.get('order') == 'reversed':
        corder.reverse()
    elif ctx.get('order') == 'shuffled':
        random.Random(seed * 7 + part).shuffle(corder)
    for idx in corder:
        prog = cprogs[idx]
        if time.time() - t0 > budget:
            truncated = True
            break
        ncases += 1
        status, events, text, m = KI.run(prog)
        evaluations += len(events)
        for e in events:
            keys.add(K.key_of(e))
            if e['verdict'] == 'viol' and e['symptom'] == 'mutated-operand':
                report('mutated-operand', e['detail'], {'kind': 'hist-cls', 'prog': prog}, K.show(prog))
        fp = cls_fp(status, events, text)
        fps['c%d/%d' % (part, idx)] = fp
        textfp['c%d/%d' % (part, idx)] = hashlib.blake2b((text or '').encode('utf-8', 'surrogatepass'), digest_size=4).hexdigest()
        # the same program from shared, already-used class objects
        st2, ev2, t2, m2 = PK.run(prog)
        evaluations += len(ev2)
        fp2 = cls_fp(st2, ev2, t2)
        ccompared += 1
        fresh_clean = not any(e['verdict'] == 'viol' for e in events)
        if fresh_clean and fp2 != fp:
            report('history-dependent', 'class expression %s: fresh build denotes %s (%r), build from reused class objects denotes %s (%r)' %
                   (K.show(prog), fp, text, fp2, t2), {'kind': 'hist-cls', 'prog': prog, 'history': True}, K.show(prog))
    for key, (r, m) in PK.pool.items():
        if snapshot(r) != PK.first_snap[key]:
            changed += 1
            report('mutated-operand', 'pooled class object %s changed over the shard' % key[:80], {'kind': 'hist-cls', 'prog': json.loads(key)}, key[:100])
    # meta patterns: the value of a constructor call must not depend on the process / hash seed either
    mcalls = meta_calls(tier, seed, part, nparts)
    from . import meta as MT
    for idx, (name, args, kw) in enumerate(mcalls):
        if time.time() - t0 > budget:
            truncated = True
            break
        ncases += 1
        try:
            obj = getattr(MT.ME, name)(*args, **kw)
            fp = fp_of('done', str(obj))
            txt = str(obj)
        except LIBEXC as e:
            fp, txt = 'exc:' + type(e).__name__, ''
        except Exception as e:
            fp, txt = 'crash:' + type(e).__name__, ''
        evaluations += 1
        keys.add(hashlib.blake2b(repr((name, args, sorted(kw.items()))).encode('utf-8', 'surrogatepass'), digest_size=8).hexdigest())
        fps['m%d/%d' % (part, idx)] = fp
        textfp['m%d/%d' % (part, idx)] = hashlib.blake2b(txt.encode('utf-8', 'surrogatepass'), digest_size=4).hexdigest()
    return {
        'evaluations': evaluations, 'cases': ncases, 'keys': sorted(keys), 'violations': viols, 'viol_counts': dict(nviol),
        'other_property_violations': {}, 'stats': {k: v for k, v in I.stats.items() if k in ('struct', 'probes', 'unspec', 'exc-ok', 'timeout')},
        'by_op': dict(I.by_op), 'samples': samples, 'monitor_errors': [], 'timeouts': I.stats.get('timeout', 0) + P.stats.get('timeout', 0),
        'truncated': truncated, 'fingerprints': fps, 'text_fingerprints': textfp,
        'extra': {'fresh_vs_pooled_compared': compared, 'pool_objects': len(P.pool), 'pool_reuses': P.reused,
                  'pool_objects_changed': changed, 'abuse_ops': sum(P.abuses.values()),
                  'behaviour_probes': probed, 'behaviour_probe_timeouts': PROBE_STATS['timeouts'], 'class_fresh_vs_pooled_compared': ccompared, 'class_pool_objects': len(PK.pool), 'class_pool_reuses': PK.reused},
    }


def plan(check, tier, seed, tp):
    jobs = []
    hss = {'quick': [0, 1, 2, 3], 'thorough': list(range(12))}[tier]
    nparts = 4
    # the same program list is evaluated in a different order in some processes: a value that depends
    # on what was built before it (in that process) shows up as a fingerprint difference across jobs
    orders = ['forward', 'reversed', 'shuffled', 'forward']
    for k, h in enumerate(hss):
        for p in range(nparts):
            jobs.append(('p%d.h%d' % (p, h), {'part': p, 'nparts': nparts, 'order': orders[k % len(orders)]}, h))
    return jobs


def cross_check(check, shard_results):
    by_prog = {}
    texts = {}
    for pi, res in shard_results:
        for k, fp in res.get('fingerprints', {}).items():
            by_prog.setdefault(k, {})['%s/%s' % (pi['hashseed'], pi['job'].get('order', 'forward'))] = fp
        for k, fp in res.get('text_fingerprints', {}).items():
            texts.setdefault(k, set()).add(fp)
    viols = []
    ndiff = 0
    for k, d in sorted(by_prog.items()):
        vals = set(d.values())
        if len(vals) > 1 and not any(v.startswith('status:timeout') for v in vals):
            ndiff += 1
            if len(viols) < 3:
                viols.append({'property': check, 'sig': 'seed-or-history-dependent', 'symptom': 'seed-or-history-dependent',
                              'detail': 'program %s: semantic fingerprint per (PYTHONHASHSEED/evaluation order) %r' % (k, d),
                              'case': {'kind': 'hist-cross', 'id': k}, 'no_replay': True, 'hashseed': 0})
    info = {'programs_compared_across_seeds': len(by_prog), 'programs_with_seed_dependent_text': sum(1 for s in texts.values() if len(s) > 1),
            'programs_with_seed_dependent_meaning': ndiff}
    # make the witnesses replayable: regenerate the program behind each id
    if viols and shard_results:
        job = shard_results[0][0]['job']
        for v in viols:
            pid = v['case']['id']
            part, idx = int(pid[1:].split('/')[0]), int(pid.split('/')[1])
            if pid[0] == 'm':
                name, args, kw = meta_calls(job['tier'], job['seed'], part, job['nparts'])[idx]
                v['case'].update({'family': 'meta', 'prog': {'ctor': name, 'args': list(args), 'kw': kw}})
            elif pid[0] == 'd':
                item = programs(job['tier'], job['seed'], part, job['nparts'])[idx]
                v['case'].update({'family': 'dsl', 'prog': G.strip_forms(item['prog']), 'form': item.get('form', 'c')})
            else:
                v['case'].update({'family': 'cls', 'prog': class_programs(job['tier'], job['seed'], part, job['nparts'])[idx]})
            v['case']['configs'] = sorted(by_prog[pid])
            v['case']['job'] = {'tier': job['tier'], 'seed': job['seed'], 'part': part, 'nparts': job['nparts'], 'check': 'C20', 'budget': 600}
            v['no_replay'] = True
            v['show'] = json.dumps(v['case']['prog'])[:300]
    return viols, info


def meta_calls(tier, seed, part, nparts):
    """deterministic list of meta constructor calls (same list under every hash seed)"""
    from . import wrapload, meta as MT
    rnd = random.Random(seed * 31 + 77)
    calls = wrapload.w9_calls(rnd, 'quick')
    fmts = MT.date_formats()
    # lists of formats in which one format matches a prefix of another: the order of alternatives matters
    for a, b in (('d/m/yy', 'd/m/yyyy'), ('yyyy-mm-d', 'yyyy-mm-dd'), ('m-d-yy', 'm-dd-yy'), ('dd/m/yy', 'dd/mm/yy'), ('d-m-yyyy', 'd-m-yy')):
        for ext in (True, False):
            calls.append(('Date', ([a, b],), {'is_extensible': ext}))
            calls.append(('Date', ([b, a],), {'is_extensible': ext}))
    for _ in range(12):
        calls.append(('Date', (rnd.sample(fmts, rnd.choice([2, 3, 6, 12])),), {'is_extensible': rnd.random() < 0.7}))
    for cls in ('WordContains', 'WordStartsWith', 'WordEndsWith'):
        for _ in range(6):
            calls.append((cls, (rnd.sample(['a', 'ab', 'abc', 'b', 'bc', 'x$', 'x', '.', 'a.b', 'é', '0', '01'], rnd.choice([2, 3, 5])),),
                          {'is_extensible': rnd.random() < 0.5}))
    return [c for i, c in enumerate(calls) if i % nparts == part]


def class_programs(tier, seed, part, nparts):
    crnd = random.Random((seed * 17 + part) * 5 + 1)
    cprogs = [p for i, p in enumerate(K.w7('quick', seed)) if i % (nparts * (6 if tier == 'quick' else 1)) == part]
    cprogs += list(K.w7_random(crnd, (1500 if tier == 'quick' else 15000) // nparts, (1, 2, 3, 4)))
    return cprogs


def fingerprint_case(case):
    if case['family'] == 'dsl':
        I = Interp(seed=0)
        st, ev, t = I.run_program(case['prog'], case.get('form', 'c'))
        return fp_of(st, t)
    KI = K.ClsInterp(0)
    KI.scan_sample = False
    status, events, text, m = KI.run(case['prog'])
    last = events[-1] if events else {}
    if status == 'done' and text is not None and C.set_of_single(text) is not None:
        return hashlib.blake2b(repr(C.unmask(C.set_of_single(text))).encode(), digest_size=6).hexdigest()
    return 'exc:' + str(last.get('symptom') or last.get('verdict'))


def replay(case, check, seed=0):
    kind = case.get('kind')
    out = []
    if kind == 'hist-dsl':
        I = Interp(seed=seed)
        P = PoolInterp(seed=seed)
        prog, form = case['prog'], case.get('form', 'c')
        st1, ev1, t1 = I.run_program(prog, form)
        # a history is needed for the pooled build to differ: build twice through the pool
        P.run_program(prog, form)
        st2, ev2, t2 = P.run_program(prog, form)
        for e in ev1 + ev2:
            if e.verdict == 'viol' and e.symptom == 'mutated-operand':
                out.append({'symptom': 'mutated-operand', 'detail': e.detail, 'event': e.json(), 'sig': 'mutated-operand'})
        if st1 == 'done' and st2 == 'done':
            a, b = C.parse(t1), C.parse(t2)
            if (a.error or b.error) and t1 != t2 or (not a.error and not b.error and a.key != b.key):
                out.append({'symptom': 'history-dependent', 'detail': 'fresh %r vs pooled %r' % (t1, t2), 'event': {}, 'sig': 'history-dependent'})
        for key, (r, s) in P.pool.items():
            if snapshot(r) != P.first_snap[key]:
                out.append({'symptom': 'mutated-operand', 'detail': 'pooled object %s changed' % key[:80], 'event': {}, 'sig': 'mutated-operand'})
    elif kind == 'hist-cls':
        KI = K.ClsInterp(seed)
        KI.scan_sample = False
        status, events, text, m = KI.run(case['prog'])
        for e in events:
            if e['verdict'] == 'viol' and e['symptom'] == 'mutated-operand':
                out.append({'symptom': 'mutated-operand', 'detail': e['detail'], 'event': e, 'sig': 'mutated-operand'})
        if case.get('history'):
            # rebuild the history: the deterministic class program list up to (and including) this program, through one pool
            PK = PoolClsInterp(seed)
            PK.scan_sample = False
            fp = cls_fp(status, events, text)
            seen = False
            for tier_ in ('quick',):
                for part in range(4):
                    for prog in class_programs(tier_, seed, part, 4):
                        st2, ev2, t2, m2 = PK.run(prog)
                        if prog == case['prog']:
                            seen = True
                            if cls_fp(st2, ev2, t2) != fp:
                                out.append({'symptom': 'history-dependent', 'detail': 'fresh %r vs from reused objects %r' % (text, t2), 'event': {},
                                            'sig': 'history-dependent'})
                            break
                    if seen:
                        break
                if seen:
                    break
    elif kind == 'hist-cross' and 'prog' in case:
        import os, subprocess, sys, tempfile
        fps = {}
        for cfg in case.get('configs', ['0/forward', '1/reversed']):
            h, order = cfg.split('/')
            env = dict(os.environ, PYTHONHASHSEED=str(h))
            job = dict(case.get('job') or {}, order=order, mode='shard')
            with tempfile.TemporaryDirectory() as td:
                jf, rf = os.path.join(td, 'j.json'), os.path.join(td, 'r.json')
                json.dump(job, open(jf, 'w'))
                subprocess.run([sys.executable, '-W', 'ignore', '-m', 'rv.worker', jf, rf], env=env, timeout=900,
                               cwd=os.path.dirname(os.path.dirname(os.path.abspath(__file__))), capture_output=True)
                try:
                    fps[cfg] = json.load(open(rf)).get('fingerprints', {}).get(case['id'], 'missing')
                except Exception:
                    fps[cfg] = 'no-result'
        if len(set(fps.values())) > 1:
            out.append({'symptom': 'seed-or-history-dependent', 'detail': 'semantic fingerprint per (PYTHONHASHSEED/order) %r' % fps, 'event': {},
                        'sig': 'seed-or-history-dependent'})
    elif kind == 'hist-pool':
        P = PoolInterp(seed=seed)
        for _ in range(6):
            P.run_program(case['node'], case.get('form', 'c'))
        for key, (r, s) in P.pool.items():
            if snapshot(r) != P.first_snap[key]:
                out.append({'symptom': 'mutated-operand', 'detail': 'pooled object %s changed' % key[:80], 'event': {}, 'sig': 'mutated-operand'})
    return out


def candidates(case):
    if case.get('kind') == 'hist-cross' and case.get('family') == 'cls':
        return [dict(c, kind='hist-cross', family='cls', seeds=case.get('seeds')) for c in K.candidates({'prog': case['prog']})][:40]
    if case.get('kind') == 'hist-dsl':
        from .shrink import dsl_candidates
        out = []
        for p in dsl_candidates(case['prog']):
            c = dict(case)
            c['prog'] = p
            out.append(c)
        return out
    return []


def features(case, violation):
    return sorted({'kind:' + str(case.get('kind')), 'symptom:' + str(violation.get('symptom'))})


if __name__ == '__main__':
    import sys
    print(fingerprint_case(json.loads(sys.argv[1])))
