"""Oracle discipline (DESIGN.md section 3.5): real emitted text vs the shadow's reference."""
import re
import random
from . import canon as C
from . import shadow as S

GENERIC = ['', 'a', 'b', 'ab', 'ba', 'aa', 'abc', 'a\nb', '\n', 'A', 'aB', 'a$', '$', '^a', 'a.b',
           'axb', '[a]', '(a)', 'a|b', 'aab', 'bab', '  a  ', '0', 'a0', 'x', 'xx', '\\', 'a\\b',
           'a?', 'a+', 'a*', '{2}', 'a{2}', 'aaa', 'abab', ')', '(', ']', '[', '-', 'é', 'a\n', '\na']


def mutate(t, rnd):
    if not t:
        return rnd.choice(['a', ' ', '\n'])
    k = rnd.randrange(7)
    i = rnd.randrange(len(t))
    if k == 0:
        return t[:i] + t[i + 1:]
    if k == 1:
        return t[:i] + rnd.choice('ab \n$.(') + t[i:]
    if k == 2 and len(t) > 1:
        j = rnd.randrange(len(t))
        l = list(t)
        l[i], l[j] = l[j], l[i]
        return ''.join(l)
    if k == 3:
        j = rnd.randrange(i, len(t) + 1)
        return t[:j] + t[i:j] + t[j:]
    if k == 4:
        return t.swapcase()
    if k == 5:
        return t[:i] + '\n' + t[i:]
    return t + t


def probe_texts(shadow, real_tree, rnd, n=12):
    base = []
    for _ in range(n):
        try:
            base.append(S.sample(shadow, rnd))
        except RecursionError:
            break
    for _ in range(n):
        try:
            base.append(S._sample_tree(real_tree, rnd))
        except RecursionError:
            break
    out = list(dict.fromkeys(base))
    for t in list(out):
        out.append(mutate(t, rnd))
        out.append(mutate(t, rnd))
        c = rnd.choice([(' ', ' '), ('x', 'y'), ('\n', '\n'), ('a', ''), ('', 'a'), ('(', ')'), ('0', '9')])
        out.append(c[0] + t + c[1])
        # the case of single letters swapped, per occurrence (round 8: a flag lost on a back reference only shows on
        # texts that repeat a word in the other case, which swapping the whole text never produces)
        cased = [i for i, ch in enumerate(t) if ch.swapcase() != ch and len(ch.swapcase()) == 1]
        if cased and len(t) < 80:
            for i in dict.fromkeys([cased[0], cased[-1], rnd.choice(cased)]):
                out.append(t[:i] + t[i].swapcase() + t[i + 1:])
        if len(t) < 40:
            out.append(t + ' ' + t)
            out.append(t + t)
    out += GENERIC
    out = [t for t in dict.fromkeys(out) if len(t) < 400]
    m = C.mask()
    return [t for t in out if not any(C.contains(m, ord(ch)) for ch in t)]


def behaviour(c, text):
    try:
        ms = [(m.span(), m.groups()) for m in c.finditer(text)]
        fm = c.fullmatch(text)
        return ms, (fm.groups() if fm else None)
    except RecursionError:
        return 'recursion', None


class Verdict:
    __slots__ = ('kind', 'symptom', 'detail', 'real', 'ref', 'text')

    def __init__(self, kind, symptom=None, detail=None, real=None, ref=None, text=None):
        self.kind = kind          # 'struct' | 'probes' | 'unspec' | 'viol'
        self.symptom = symptom
        self.detail = detail
        self.real = real
        self.ref = ref
        self.text = text

    def json(self):
        return {k: getattr(self, k) for k in self.__slots__ if getattr(self, k) is not None}


def judge(real_text, shadow, rnd, export_text=None, nprobes=12):
    """compare what the library emitted with the reference rendering of the shadow"""
    refs = S.free_refs(shadow)
    prefix = S.ref_prefix(refs)
    if prefix:
        # a fragment with free group references is judged behind a synthetic declaration of those
        # groups; both sides are wrapped alike so that the prefix binds to the whole fragment
        rf = prefix + '(?:' + S.ref(shadow) + ')'
        rt = prefix + '(?:' + real_text + ')'
    else:
        rf = S.ref(shadow)
        rt = real_text
    caps = S.captures(shadow)
    if caps is not None:
        named = [c for c in caps if c]
        if len(named) != len(set(named)):
            return Verdict('unspec', detail='program defines a group name twice', real=real_text)
    pf = C.parse(rf)
    if pf.error:
        if refs or S.has_kind(shadow, lambda n: n.k in ('Backref', 'Cond', 'Raw')):
            return Verdict('unspec', detail='reference does not compile (dangling/forward group reference or raw text): ' + pf.error,
                           real=real_text, ref=rf)
        raise S.MonitorError('reference does not parse: %r: %s' % (rf, pf.error))
    cf, err = C.compiles(rf)
    if cf is None:
        if refs or S.has_kind(shadow, lambda n: n.k in ('Backref', 'Cond', 'Raw')):
            return Verdict('unspec', detail='reference does not compile (group reference / raw text inside): ' + err,
                           real=real_text, ref=rf)
        raise S.MonitorError('reference does not compile: %r: %s' % (rf, err))
    pr = C.parse(rt)
    if pr.error:
        return Verdict('viol', 'uncompilable:' + pr.error, real=real_text, ref=rf)
    if prefix:
        bare = C.parse(prefix + real_text)
        if bare.error:
            # wrapping must not repair an unbalanced fragment
            return Verdict('viol', 'uncompilable:' + bare.error, real=real_text, ref=rf)
    cr, err = C.compiles(rt)
    if cr is None:
        return Verdict('viol', 'uncompilable:' + err, real=real_text, ref=rf)
    if export_text is not None:
        v = check_export(prefix, real_text, export_text, pr)
        if v is not None:
            v.ref = rf
            return v
    if pr.key == pf.key:
        return Verdict('struct', real=real_text, ref=rf)
    # group structure
    if caps is not None:
        if pr.groups != pf.groups:
            return Verdict('viol', 'groups:count', detail='%d capturing groups, expected %d' % (pr.groups, pf.groups),
                           real=real_text, ref=rf)
        if pr.groupdict != pf.groupdict:
            return Verdict('viol', 'groups:names', detail='%r expected %r' % (pr.groupdict, pf.groupdict),
                           real=real_text, ref=rf)
    for t in probe_texts(shadow, pr.tree, rnd, nprobes):
        a = behaviour(cr, t)
        b = behaviour(cf, t)
        if a != b:
            if a[0] == 'recursion' or b[0] == 'recursion':
                continue
            spans_a = [x[0] for x in a[0]]
            spans_b = [x[0] for x in b[0]]
            sym = 'semantic:span-diff' if (spans_a != spans_b or (a[1] is None) != (b[1] is None)) else 'semantic:groups-diff'
            return Verdict('viol', sym, detail='on %r: real %r / reference %r' % (t, _short(a), _short(b)),
                           real=real_text, ref=rf, text=t)
    return Verdict('probes', real=real_text, ref=rf)


def _short(b):
    return (b[0][:4], b[1])


def check_export(prefix, real_text, export_text, pr):
    if not isinstance(export_text, str):
        return Verdict('viol', 'export-differs', detail='get_pattern() returned %r' % (export_text,), real=real_text)
    if not export_text.isprintable():
        return Verdict('viol', 'not-printable', detail='get_pattern() = %r' % export_text, real=real_text)
    pe = C.parse(prefix + '(?:' + export_text + ')' if prefix else export_text)
    if pe.error:
        return Verdict('viol', 'export-differs', detail='get_pattern() %r does not compile: %s' % (export_text, pe.error),
                       real=real_text)
    if pe.key != pr.key:
        return Verdict('viol', 'export-differs', detail='get_pattern() %r is not equivalent to the internal pattern' % export_text,
                       real=real_text)
    return None
