"""Instrumentation that needs no source edit: function-entry coverage of pregex.* via sys.monitoring."""
import os
import sys

_reached = set()
_on = False
TOOL = 4


def _py_start(code, offset):
    fn = code.co_filename
    if '/pregex/' in fn:
        _reached.add(fn.rsplit('/pregex/', 1)[1][:-3].replace('/', '.') + ':' + code.co_qualname)
    return sys.monitoring.DISABLE


def start_coverage():
    global _on
    if _on or not hasattr(sys, 'monitoring'):
        return
    try:
        sys.monitoring.use_tool_id(TOOL, 'pregex-rv')
        sys.monitoring.register_callback(TOOL, sys.monitoring.events.PY_START, _py_start)
        sys.monitoring.set_events(TOOL, sys.monitoring.events.PY_START)
        _on = True
    except Exception:
        pass


def functions_reached():
    return sorted(_reached)


if os.environ.get('PREGEX_RV') == '1':
    start_coverage()
