"""Character classes (C06 constructors, C07 algebra): model, oracle over the whole of Unicode,
workloads W6/W7, hash-seed and set-order perturbation.  (DESIGN.md sections 3.3, 3.7, 4/C06-C07.)"""
import collections
import hashlib
import itertools
import random
import re
import string
import time

from . import canon as C
from . import shadow as S
from . import judge as J
from .interp import Pregex, CL, TK, EX, LIBEXC, NAMED_SETS, TOKENS, snapshot

T_UNION = 'CannotBeUnionedException'
T_SUB = 'CannotBeSubtractedException'
T_NEG = 'CannotBeNegatedException'
T_EMPTY = 'EmptyClassException'
T_GLOBAL = 'GlobalWordCharSubtractionException'
T_RANGE = 'InvalidRangeException'

LANG = ['AnyGermanLetter', 'AnyGreekLetter', 'AnyCyrillicLetter', 'AnyCJK', 'AnyHebrewLetter', 'AnyKoreanLetter']


class CV:
    """model value of a class: negated?, listed set, is-Any, global word char"""
    __slots__ = ('neg', 'listed', 'any', 'wglobal', 'wordcls')

    def __init__(self, neg, listed, any_=False, wglobal=False, wordcls=False):
        self.neg = neg
        self.listed = C.norm(listed)
        self.any = any_
        self.wglobal = wglobal
        self.wordcls = wordcls

    def matched(self):
        if self.any:
            return ((0, C.MAXCP),)
        return C.compl(self.listed) if self.neg else self.listed

    def shape(self):
        return '%s%s%s' % ('Any' if self.any else '[^' if self.neg else '[', '' if self.any else C.show(self.listed, 4) + ']',
                           'w' if self.wglobal else '')


class ChrV:
    """a bare one-character str / token operand"""
    __slots__ = ('c', 'kind')

    def __init__(self, c, kind):
        self.c = c
        self.kind = kind

    def shape(self):
        return '%s(%r)' % (self.kind, self.c)


class BadV:
    __slots__ = ('v',)

    def __init__(self, v):
        self.v = v

    def shape(self):
        return 'bad(%r)' % (self.v,)


# ------------------------------------------------------------------ model (documented algebra)
def as_class(v, receiver_neg):
    """how `|`/`-` see their other operand"""
    if isinstance(v, CV):
        return v
    if isinstance(v, ChrV):
        if receiver_neg:
            return None      # documented: tokens/strings only combine with regular classes
        return CV(False, C.of_chars(v.c))
    return None


def m_or(a, b, exc=T_UNION):
    """a | b with a, b model values; a is the left operand. The class operand decides str handling."""
    cls_side = a if isinstance(a, CV) else b
    if not isinstance(cls_side, CV):
        raise S.Unspec('no class operand')
    A = as_class(a, cls_side.neg)
    B = as_class(b, cls_side.neg)
    if A is None or B is None:
        raise S.Expect(exc)
    if A.neg != B.neg:
        if A.any or B.any:
            # "Any absorbs unions" and "regular and negated cannot be unioned" both apply
            raise S.Expect(exc, also=CV(False, (), any_=True))
        raise S.Expect(exc)
    if A.any or B.any:
        return CV(False, (), any_=True)
    wg = (A.wordcls and A.wglobal) or (B.wordcls and B.wglobal)
    return CV(A.neg, C.union(A.listed, B.listed), wglobal=wg)


def m_sub(a, b):
    cls_side = a if isinstance(a, CV) else b
    if not isinstance(cls_side, CV):
        raise S.Unspec('no class operand')
    A = as_class(a, cls_side.neg)
    B = as_class(b, cls_side.neg)
    if A is None or B is None:
        raise S.Expect(T_SUB)
    if A.neg != B.neg:
        if B.any:
            raise S.Expect(T_SUB, T_EMPTY)
        raise S.Expect(T_SUB)
    if B.any:
        raise S.Expect(T_EMPTY)
    if A.any:
        if C.norm(B.listed) == ((0, 0x10FFFF),):
            raise S.Expect(T_EMPTY)         # nothing is left
        return CV(True, B.listed, wglobal=B.wglobal, wordcls=B.wordcls)   # Any - X = ~X (and ~ of the global word class stays the global word class)
    if A.wordcls and A.wglobal:
        raise S.Expect(T_GLOBAL)
    rest = C.diff(A.listed, B.listed)
    if not rest:
        raise S.Expect(T_EMPTY)
    if (A.wglobal or B.wglobal) and not C.diff(rest, C.mask()):
        raise S.Unspec('only unspecified code points remain')
    return CV(A.neg, rest)


def m_inv(a):
    if not isinstance(a, CV):
        raise S.Unspec('not a class')
    if a.any:
        raise S.Expect(T_NEG)
    return CV(not a.neg, a.listed, wglobal=a.wglobal, wordcls=a.wordcls)


# ------------------------------------------------------------------ interpreter
class Abort(Exception):
    pass


_lang_sets = {}


def lang_set(name):
    if name not in _lang_sets:
        base = name.replace('AnyBut', 'Any')
        _lang_sets[base] = C.scan(str(getattr(CL, base)()))
    return _lang_sets[name.replace('AnyBut', 'Any')]


class ClsInterp:
    def __init__(self, seed=0):
        self.rnd = random.Random(seed)
        self.events = []
        self.stats = collections.Counter()
        self.by_op = collections.Counter()
        self.monitor_errors = []
        self.texts = []
        self.scan_all = False
        self.scan_sample = True

    def arg(self, a):
        """constructor / operand argument: 'c' | {'t': token} | {'p': char} | {'bad': ...}"""
        if isinstance(a, str):
            return a, a
        if 't' in a:
            return getattr(TK, a['t'])(), TOKENS[a['t']]
        if 'p' in a:
            return Pregex(a['p']), a['p']
        raise KeyError(a)

    def call(self, op, kind, real_thunk, model_thunk, operands=()):
        ev = {'op': op, 'kind': kind, 'operands': [m.shape() if hasattr(m, 'shape') else repr(m) for _, m in operands],
              'verdict': None, 'symptom': None, 'detail': None, 'real': None, 'expected': None}
        self.events.append(ev)
        self.by_op[op] += 1
        also = None
        try:
            exp = model_thunk()
            expk = 'value'
        except S.Expect as e:
            exp, expk, also = e.names, 'exc', e.also
        except S.Unspec as e:
            exp, expk = str(e), 'unspec'
        ev['expected'] = expk if expk != 'exc' else 'exc:' + '|'.join(exp)
        snaps = [(r, snapshot(r)) for r, _ in operands]
        try:
            real = real_thunk()
            rk = 'ok'
        except LIBEXC as e:
            real, rk = e, 'libexc'
        except RecursionError:
            real, rk = None, 'crash:RecursionError'
        except Exception as e:
            real, rk = e, 'crash:' + type(e).__name__
        for r, snap in snaps:
            if snap is not None and snapshot(r) != snap:
                self.viol(ev, 'mutated-operand', 'operand changed from %r to %r' % (snap[:2], snapshot(r)[:2]))
                raise Abort()
        if rk.startswith('crash'):
            self.viol(ev, rk, None if real is None else str(real)[:200])
            raise Abort()
        if rk == 'libexc':
            name = type(real).__name__
            if expk == 'unspec':
                ev['verdict'] = 'unspec'
                self.stats['unspec'] += 1
                raise Abort()
            if expk == 'exc':
                if name in exp:
                    ev['verdict'] = 'exc-ok'
                    self.stats['exc-ok'] += 1
                    raise Abort()
                self.viol(ev, 'wrong-exception:' + name, 'expected ' + '|'.join(exp))
                raise Abort()
            self.viol(ev, 'unexpected-exception:' + name, str(real)[:200])
            raise Abort()
        if not isinstance(real, Pregex):
            self.viol(ev, 'crash:not-a-pregex', repr(real)[:100])
            raise Abort()
        text = str(real)
        ev['real'] = text
        if expk == 'exc':
            if also is None:
                self.viol(ev, 'missing-exception:' + '|'.join(exp), 'returned %r' % text)
                return real, self.adopt(text, False)
            exp = also
        if expk == 'unspec':
            ev['verdict'] = 'unspec'
            self.stats['unspec'] += 1
            return real, self.adopt(text, False)
        return real, self.judge(ev, real, text, exp)

    def adopt(self, text, neg):
        """model value taken from what the object actually matches (after a violation / unspecified step)"""
        p = C.parse(text)
        if p.error or not (len(p.canon) == 1 and p.canon[0][0] == 'SET'):
            raise Abort()
        got = p.canon[0][1]
        neg = text.startswith('[^')
        return CV(neg, C.compl(got) if neg else got)

    def judge(self, ev, real, text, exp):
        p = C.parse(text)
        if p.error:
            self.viol(ev, 'class:invalid', 'emitted %r does not compile: %s' % (text, p.error))
            raise Abort()
        if not (len(p.canon) == 1 and p.canon[0][0] == 'SET'):
            self.viol(ev, 'class:invalid', 'emitted %r is not a single character set' % text)
            raise Abort()
        m = C.mask()
        o2 = p.canon[0][1]
        got = o2
        if self.scan_all or self.scan_sample and hashlib.blake2b(text.encode('utf-8', 'surrogatepass'), digest_size=1).digest()[0] % 6 == 0:
            # O4: what the *engine* matches over all 1,114,112 code points must be what the parser says
            got = C.scan(text)
            self.stats['full-unicode-scans'] += 1
            if C.unmask(got) != C.unmask(o2):
                self.monitor_errors.append('O2/O4 disagree on %r' % text)
                raise Abort()
        want = exp.matched()
        g2, w2 = C.unmask(got), C.unmask(want)
        if g2 != w2:
            extra, missing = C.diff(g2, w2), C.diff(w2, g2)
            self.viol(ev, 'class:wrong-set', 'emitted %r matches extra %s, misses %s' % (text, C.show(extra, 3), C.show(missing, 3)))
            return self.adopt(text, exp.neg)
        v = J.check_export('', text, real.get_pattern(), p)
        if v is not None:
            self.viol(ev, v.symptom, v.detail)
            return exp
        ev['verdict'] = 'set-equal'
        self.stats['set-equal'] += 1
        self.texts.append(text)
        return exp

    def relative_union(self, ar, br, r, am, bm):
        """(no extra law: what a union does to code points that only a shorthand adds is left unspecified by C06/C07.
        Three candidate real-vs-real laws over that region were tried and removed as false alarms on the unchanged tree:
        exact relative union ('/' | AnyDigit() merges into [/-9] and drops \\d), order independence (the same merge
        happens on one side only in [^\\d(-.] | [^/c-{]) and 'a global word class stays global' ('/' | AnyWordChar(True)
        merges '/' with 0-9, after which the \\w shorthand is no longer recognised).)"""
        return

    def viol(self, ev, symptom, detail):
        ev['verdict'] = 'viol'
        ev['symptom'] = symptom
        ev['detail'] = detail
        self.stats['viol'] += 1

    # -------------------------------------------------------------- evaluation
    def run(self, prog):
        self.events = []
        try:
            r, m = self.ev(prog)
            return 'done', self.events, (str(r) if isinstance(r, Pregex) else None), m
        except Abort:
            return 'abort', self.events, None, None

    def ev(self, t):
        o = t['o']
        if o == 'chr':
            return t['c'], ChrV(t['c'], 'str')
        if o == 'tokv':
            return getattr(TK, t['t'])(), ChrV(TOKENS[t['t']], 'tok')
        if o == 'bad':
            v = {'str2': 'ab', 'empty': '', 'int': 5, 'none': None, 'pre2': Pregex('ab'), 'list': ['a'],
                 'quant': Pregex('a').optional()}[t['v']]
            return v, BadV(t['v'])
        if o == 'named':
            n = t['n']
            kw = dict(t.get('kw', {}))
            if n in LANG or n.replace('AnyBut', 'Any') in LANG:
                ls = lang_set(n)
                mv = CV(n.startswith('AnyBut'), ls)
            elif n == 'Any':
                mv = CV(False, (), any_=True)
            else:
                neg = n.startswith('AnyBut')
                mv = CV(neg, NAMED_SETS[n.replace('AnyBut', 'Any')], wglobal=bool(kw.get('is_global')),
                        wordcls=n in ('AnyWordChar', 'AnyButWordChar'))
            return self.call(n, 'ctor', lambda: getattr(CL, n)(**kw), lambda: mv, [])
        if o == 'from':
            args = [self.arg(a) for a in t['args']]
            neg = t.get('neg', False)
            cls = CL.AnyButFrom if neg else CL.AnyFrom

            def model():
                if not args:
                    raise S.Expect(S.T_ARGS)
                return CV(neg, C.of_chars([c for _, c in args]))
            return self.call(cls.__name__, 'ctor', lambda: cls(*[r for r, _ in args]), model,
                             [(r, ChrV(c, 'arg')) for r, c in args])
        if o == 'frombad':
            neg = t.get('neg', False)
            cls = CL.AnyButFrom if neg else CL.AnyFrom
            import pregex.core.assertions as _AS
            vals = {'clsdigit': [CL.AnyDigit()], 'clsany': ['a', CL.Any()], 'wb': [_AS.WordBoundary()], 'clsws': [CL.AnyWhitespace(), 'b'], 'bs2': ['\\a'], 'bs2b': ['a', '\\-'], 'bs3': ['\\\\a'], 'str2': ['a', 'bc'], 'empty': ['a', ''], 'int': ['a', 5], 'none': [None], 'noargs': [], 'list': [['a']],
                    'pre2': ['a', Pregex('ab')], 'bytes': [b'a'], 'float': [1.5]}[t['v']]
            exc = S.T_ARGS if t['v'] == 'noargs' else S.T_TYPE

            def model():
                raise S.Expect(exc)
            return self.call(cls.__name__, 'ctor', lambda: cls(*vals), model, [(None, BadV(t['v']))])
        if o == 'btw':
            (ar, ac), (br, bc) = self.arg(t['a']), self.arg(t['b'])
            neg = t.get('neg', False)
            cls = CL.AnyButBetween if neg else CL.AnyBetween

            def model():
                if ord(ac) >= ord(bc):
                    raise S.Expect(T_RANGE)
                return CV(neg, ((ord(ac), ord(bc)),))
            return self.call(cls.__name__, 'ctor', lambda: cls(ar, br), model, [(ar, ChrV(ac, 'arg')), (br, ChrV(bc, 'arg'))])
        if o == 'btwbad':
            neg = t.get('neg', False)
            cls = CL.AnyButBetween if neg else CL.AnyBetween
            import pregex.core.assertions as _AS
            a, b = {'clsdigit': (CL.AnyDigit(), '~'), 'clsany': ('!', CL.Any()), 'wb': (_AS.WordBoundary(), 'z'), 'bs2': ('\\a', 'z'), 'bs2b': ('!', '\\z'), 'str2': ('ab', 'z'), 'int': (1, 9), 'none': (None, 'z'), 'empty': ('', 'z'), 'pre2': ('a', Pregex('xy')),
                    'list': (['a'], 'z'), 'float': ('a', 2.5)}[t['v']]

            def model():
                raise S.Expect(S.T_TYPE)
            return self.call(cls.__name__, 'ctor', lambda: cls(a, b), model, [(None, BadV(t['v']))])
        if o == 'tokcls':
            n = t['t']
            return self.call(n, 'tok', lambda: getattr(TK, n)(), lambda: CV(False, C.of_chars(TOKENS[n])), [])
        if o in ('or', 'sub'):
            (ar, am), (br, bm) = self.ev(t['x'][0]), self.ev(t['x'][1])
            if o == 'or':
                r, m = self.call('or', 'algebra', lambda: ar | br, lambda: m_or(am, bm), [(ar, am), (br, bm)])
                self.relative_union(ar, br, r, am, bm)
                return r, m
            return self.call('sub', 'algebra', lambda: ar - br, lambda: m_sub(am, bm), [(ar, am), (br, bm)])
        if o == 'inv':
            ar, am = self.ev(t['x'][0])
            return self.call('inv', 'algebra', lambda: ~ar, lambda: m_inv(am), [(ar, am)])
        raise KeyError(o)


def props_of(ev):
    sym = ev['symptom'] or ''
    base = sym.split(':')[0]
    P = set()
    own = {'ctor': 'C06', 'tok': 'C06', 'algebra': 'C07'}[ev['kind']]
    if base == 'crash':
        P |= {'C03', own}
    elif sym.startswith('class:invalid'):
        P |= {'C03', own}
    elif sym.startswith('class:wrong-set') or sym.startswith('class:order-dependent'):
        P.add(own)
    elif base in ('missing-exception', 'unexpected-exception', 'wrong-exception'):
        P.add(own)
    elif base in ('export-differs', 'not-printable'):
        P.add('C03')
    elif base == 'mutated-operand':
        P.add('C20')
    return P


# ------------------------------------------------------------------ workloads
PUNCT = list(string.punctuation)
SIGMA_C = PUNCT + ['\n', '\t', ' ', '0', '9', 'A', 'Z', 'a', 'z', 'b', 'y', '1', '8', '\r', '\x0b', '\x0c',
                   'é', 'ß', '€', ' ', '\U0001F600', '\x00', '\x7f', '\xa0', '٣', 'İ', '\U0010ffff', '\U0010fffe', '\x01']
TOKNAMES = sorted(TOKENS)
HOSTC = ['[', ']', '\\', '^', '-', '/', '$', '.', '(', '\n', 'a', 'b', 'c', 'z', '0', '+', '?', '{']


def A(c, rnd=None):
    """argument spelling for char c: str, or the token instance when one exists (random)"""
    return c


def tok_for(c):
    for n, ch in TOKENS.items():
        if ch == c:
            return {'t': n}
    return None


def w6(tier, seed):
    """constructor programs (deterministic part, then seeded random part)"""
    rnd = random.Random(seed * 31 + 6)
    out = []
    # every named class and every token class
    for n in list(NAMED_SETS) + LANG + [x.replace('Any', 'AnyBut', 1) for x in LANG]:
        out.append({'o': 'named', 'n': n})
    out.append({'o': 'named', 'n': 'AnyWordChar', 'kw': {'is_global': True}})
    out.append({'o': 'named', 'n': 'AnyButWordChar', 'kw': {'is_global': True}})
    for n in TOKNAMES:
        out.append({'o': 'tokcls', 't': n})
    # AnyFrom / AnyButFrom: all singletons, all unordered pairs
    for c in SIGMA_C:
        out.append({'o': 'from', 'args': [c]})
        out.append({'o': 'from', 'args': [c], 'neg': True})
        t = tok_for(c)
        if t:
            out.append({'o': 'from', 'args': [t]})
            out.append({'o': 'from', 'args': [t], 'neg': True})
        if c in HOSTC:
            out.append({'o': 'from', 'args': [{'p': c}]})
    pairs = list(itertools.combinations(SIGMA_C, 2))
    for i, (a, b) in enumerate(pairs):
        out.append({'o': 'from', 'args': [a, b] if i % 2 else [b, a], 'neg': i % 5 == 0})
    # all ordered pairs for ranges (valid and invalid)
    for i, (a, b) in enumerate(itertools.product(SIGMA_C, SIGMA_C)):
        out.append({'o': 'btw', 'a': a, 'b': b, 'neg': i % 4 == 0})
    for a in TOKNAMES:
        for b in ['a', '~', '\x00', {'t': 'Dollar'}, {'t': 'Backslash'}, {'t': 'Yen'}]:
            out.append({'o': 'btw', 'a': {'t': a}, 'b': b})
            out.append({'o': 'btw', 'a': b, 'b': {'t': a}, 'neg': True})
    for v in ('clsdigit', 'clsany', 'wb', 'clsws', 'bs2', 'bs2b', 'bs3', 'str2', 'empty', 'int', 'none', 'noargs', 'list', 'pre2', 'bytes', 'float'):
        out.append({'o': 'frombad', 'v': v})
        out.append({'o': 'frombad', 'v': v, 'neg': True})
    for v in ('clsdigit', 'clsany', 'wb', 'bs2', 'bs2b', 'str2', 'int', 'none', 'empty', 'pre2', 'list', 'float'):
        out.append({'o': 'btwbad', 'v': v})
        out.append({'o': 'btwbad', 'v': v, 'neg': True})
    # sampled 3/4/6-subsets, token instances mixed in
    n = 2500 if tier == 'quick' else 10000
    for _ in range(n):
        k = rnd.choice([3, 3, 4, 4, 6, 9])
        pool = HOSTC if rnd.random() < 0.5 else SIGMA_C
        cs = rnd.sample(pool, min(k, len(pool)))
        args = []
        for c in cs:
            t = tok_for(c)
            args.append(t if (t and rnd.random() < 0.4) else c)
        out.append({'o': 'from', 'args': args, 'neg': rnd.random() < 0.25})
    if tier == 'thorough':
        for _ in range(6000):
            k = rnd.choice([1, 2, 3, 5, 8])
            cs = [chr(_cp(rnd)) for _ in range(k)]
            out.append({'o': 'from', 'args': list(dict.fromkeys(cs)), 'neg': rnd.random() < 0.25})
        for _ in range(6000):
            a, b = chr(_cp(rnd)), chr(_cp(rnd))
            out.append({'o': 'btw', 'a': a, 'b': b, 'neg': rnd.random() < 0.25})
    return out


def _cp(rnd):
    k = rnd.random()
    if k < 0.5:
        return rnd.randrange(0, 128)
    if k < 0.7:
        return rnd.randrange(128, 0x800)
    if k < 0.9:
        return rnd.randrange(0x800, 0x10000)
    return rnd.randrange(0x10000, 0x110000)


def class_basis():
    """~70 classes for exhaustive depth-1 algebra"""
    F = lambda *cs, **kw: dict({'o': 'from', 'args': list(cs)}, **kw)
    B = lambda a, b, **kw: dict({'o': 'btw', 'a': a, 'b': b}, **kw)
    N = lambda n, **kw: {'o': 'named', 'n': n, 'kw': kw} if kw else {'o': 'named', 'n': n}
    b = [F('a'), F('['), F(']'), F('\\'), F('^'), F('-'), F('/'), F('$'), F('.'), F('\n'),
         F('a', 'c'), F('a', 'b'), F('x', 'z', 'y'), F('[', ']'), F('\\', '-'), F('^', '$'), F('0', '9', '_'), F('-', 'a'),
         F('\\', 'a'), F('[', 'a'), F('\\', '[', 'a'), F('a', ']'), F('b', 'd', 'f'), F({'t': 'Dollar'}, {'t': 'Backslash'}),
         B('a', 'f'), B('c', 'h'), B('g', 'k'), B('a', 'z'), B('b', 'y'), B('0', '9'), B('9', 'z'), B('$', '~'), B('!', '/'),
         B('[', ']'), B('\\', 'a'), B('$', 'a'), B('-', '9'), B('*', '/'), B('Z', '_'), B('a', 'b'), B('\x00', '\U0010ffff'),
         N('AnyLetter'), N('AnyLowercaseLetter'), N('AnyUppercaseLetter'), N('AnyDigit'), N('AnyWordChar'),
         N('AnyWordChar', is_global=True), N('AnyPunctuation'), N('AnyWhitespace'), N('Any'), N('AnyGermanLetter'),
         N('AnyGreekLetter'),
         F('a', neg=True), F('[', neg=True), F(']', '\\', neg=True), F('a', 'c', 'e', neg=True), F('-', '^', neg=True),
         B('a', 'f', neg=True), B('c', 'h', neg=True), B('$', '~', neg=True), B('[', ']', neg=True),
         N('AnyButLetter'), N('AnyButDigit'), N('AnyButWordChar'), N('AnyButWordChar', is_global=True), N('AnyButPunctuation'),
         N('AnyButWhitespace'), N('AnyButLowercaseLetter'), N('AnyButCJK'),
         {'o': 'chr', 'c': 'a'}, {'o': 'chr', 'c': '-'}, {'o': 'chr', 'c': '\\'}, {'o': 'chr', 'c': ']'},
         {'o': 'tokv', 't': 'Newline'}, {'o': 'tokv', 't': 'Dollar'}, {'o': 'tokv', 't': 'Backslash'},
         {'o': 'bad', 'v': 'str2'}, {'o': 'bad', 'v': 'int'}, {'o': 'bad', 'v': 'pre2'}, {'o': 'bad', 'v': 'quant'}]
    return b


def allen_pairs():
    """range pairs covering all 13 Allen relations x gap 0/1/2, on letters and across bracket metacharacters"""
    out = []
    for base in (ord('d'), ord('$') + 2, ord('[') - 3, ord('-') - 4, ord('/') - 2, ord('\\') - 5, ord(']') - 3, ord('^') - 6):
        a0 = base
        for la in (1, 2, 5):
            a1 = a0 + la
            for c0 in range(a0 - 4, a1 + 5):
                for lc in (1, 2, 3, 6, 9):
                    c1 = c0 + lc
                    if c0 < 1:
                        continue
                    out.append(((chr(a0), chr(a1)), (chr(c0), chr(c1))))
    return out


def w7(tier, seed):
    out = []
    basis = class_basis()
    for a in basis:
        for b in basis:
            if a['o'] in ('chr', 'tokv', 'bad') and b['o'] in ('chr', 'tokv', 'bad'):
                continue
            out.append({'o': 'or', 'x': [a, b]})
            out.append({'o': 'sub', 'x': [a, b]})
        if a['o'] not in ('chr', 'tokv', 'bad'):
            out.append({'o': 'inv', 'x': [a]})
            out.append({'o': 'inv', 'x': [{'o': 'inv', 'x': [a]}]})
    for (a, b), (c, d) in allen_pairs():
        for neg in (False, True):
            A_ = {'o': 'btw', 'a': a, 'b': b, 'neg': neg}
            B_ = {'o': 'btw', 'a': c, 'b': d, 'neg': neg}
            out.append({'o': 'or', 'x': [A_, B_]})
            out.append({'o': 'sub', 'x': [A_, B_]})
            if not neg:
                out.append({'o': 'sub', 'x': [B_, A_]})
    return out


def rand_class(rnd, d, neg=None):
    if neg is None:
        neg = rnd.random() < 0.25
    if d == 0 or rnd.random() < 0.25:
        k = rnd.random()
        pool = HOSTC if rnd.random() < 0.6 else SIGMA_C
        if k < 0.4:
            cs = rnd.sample(pool, rnd.choice([1, 2, 3, 4]))
            args = [(tok_for(c) if (tok_for(c) and rnd.random() < 0.3) else c) for c in cs]
            return {'o': 'from', 'args': args, 'neg': neg}
        if k < 0.75:
            a, b = sorted(rnd.sample(pool, 2), key=ord)
            return {'o': 'btw', 'a': a, 'b': b, 'neg': neg}
        if neg:
            return {'o': 'named', 'n': rnd.choice(['AnyButLetter', 'AnyButDigit', 'AnyButWordChar', 'AnyButPunctuation',
                                                   'AnyButWhitespace', 'AnyButUppercaseLetter'])}
        n = rnd.choice(['AnyLetter', 'AnyDigit', 'AnyLowercaseLetter', 'AnyUppercaseLetter', 'AnyPunctuation', 'AnyWordChar',
                        'AnyWhitespace', 'AnyWordChar', 'Any'])
        if n == 'AnyWordChar' and rnd.random() < 0.3:
            return {'o': 'named', 'n': n, 'kw': {'is_global': True}}
        return {'o': 'named', 'n': n}
    k = rnd.random()
    if k < 0.12:
        return {'o': 'inv', 'x': [rand_class(rnd, d - 1, not neg)]}
    other = rand_class(rnd, d - 1, neg)
    if not neg and rnd.random() < 0.2:
        c = rnd.choice(HOSTC)
        other = {'o': 'tokv', 't': tok_for(c)['t']} if (tok_for(c) and rnd.random() < 0.5) else {'o': 'chr', 'c': c}
    if rnd.random() < 0.03:
        other = rand_class(rnd, 0, not neg)
    op = 'or' if rnd.random() < 0.5 else 'sub'
    xs = [rand_class(rnd, d - 1, neg), other]
    if rnd.random() < 0.2 and op == 'or':
        xs.reverse()
    return {'o': op, 'x': xs}


def w7_random(rnd, n, depth):
    for _ in range(n):
        yield rand_class(rnd, rnd.choice(depth))


# ------------------------------------------------------------------ set-order injection
class ShuffledSet(set):
    """a set whose iteration order is a seeded random permutation (DESIGN.md section 3.7)"""
    rng = random.Random(0)
    orders = set()

    def __iter__(self):
        l = sorted(set.__iter__(self), key=repr)
        self.rng.shuffle(l)
        if 1 < len(l) < 7:
            ShuffledSet.orders.add(tuple(l))
        return iter(l)

    def union(self, *o):
        return ShuffledSet(set.union(self, *o))

    def difference(self, *o):
        return ShuffledSet(set.difference(self, *o))


def inject_order(seed):
    ShuffledSet.rng = random.Random(seed)
    CL.set = ShuffledSet


def uninject_order():
    if 'set' in vars(CL):
        del CL.set


# ------------------------------------------------------------------ shard loop
def show(t):
    o = t['o']
    if o == 'from':
        return ('AnyButFrom' if t.get('neg') else 'AnyFrom') + '(' + ', '.join(_a(a) for a in t['args']) + ')'
    if o == 'btw':
        return ('AnyButBetween' if t.get('neg') else 'AnyBetween') + '(%s, %s)' % (_a(t['a']), _a(t['b']))
    if o == 'named':
        return t['n'] + '(%s)' % ','.join('%s=%r' % kv for kv in t.get('kw', {}).items())
    if o == 'chr':
        return repr(t['c'])
    if o in ('tokv', 'tokcls'):
        return t['t'] + '()'
    if o in ('bad', 'frombad', 'btwbad'):
        return '%s<%s>' % (o, t['v'])
    if o == 'inv':
        return '~' + show(t['x'][0])
    return '(%s %s %s)' % (show(t['x'][0]), '|' if o == 'or' else '-', show(t['x'][1]))


def _a(a):
    if isinstance(a, str):
        return repr(a)
    if 't' in a:
        return a['t'] + '()'
    return 'Pregex(%r)' % a['p']


def sig_of(ev):
    from .shrink import symptom_class
    return '%s|%s' % (symptom_class(ev['symptom']), ev['op'] if ev['kind'] == 'algebra' else ev['kind'])


def key_of(ev):
    return hashlib.blake2b(repr((ev['op'], ev['operands'])).encode('utf-8', 'surrogatepass'), digest_size=8).hexdigest()


def programs_for(check, tier, seed, part, nparts):
    """the (deterministic) program list of a partition: same list under every hash seed"""
    progs = []
    if check in ('C06', 'C03', 'C20'):
        progs += w6(tier if check == 'C06' else 'quick', seed)
    if check in ('C07', 'C03', 'C20'):
        progs += w7(tier, seed)
    mine = [p for i, p in enumerate(progs) if i % nparts == part]
    if check in ('C07', 'C03', 'C20'):
        rnd = random.Random((seed * 1009 + part) * 7 + 1)
        n = {'quick': 5000, 'thorough': 30000}[tier] // nparts
        if check != 'C07':
            n //= 3
        mine += list(w7_random(rnd, n, (1, 2, 3, 4) if tier == 'quick' else (2, 3, 4, 5, 7)))
    return mine


def run_shard(ctx):
    check, tier, seed = ctx['check'], ctx['tier'], ctx['seed']
    part, nparts = ctx['part'], ctx['nparts']
    inject = ctx.get('inject')
    if inject is not None:
        inject_order(inject)
    I = ClsInterp(seed)
    I.scan_all = bool(ctx.get('scan_all')) and inject is None
    # quick: engine-level scans on a deterministic 1-in-6 sample of emitted texts, in the first hash seed only
    I.scan_sample = inject is None and ctx.get('scan', True)
    t0 = time.time()
    budget = ctx.get('budget', 45)
    progs = programs_for(check, tier, seed, part, nparts)
    keys = set()
    viols = []
    nviol = collections.Counter()
    other = collections.Counter()
    samples = []
    fps = {}
    textfp = {}
    evaluations = 0
    ncases = 0
    truncated = False
    PI = None
    if inject is None and ctx.get('pooled', True):
        # shared operand objects: every third program is also built from one shared instance per distinct class-valued
        # sub-expression (objects that have already been operands of other unions / subtractions) and judged likewise
        from .hist import PoolClsInterp
        PI = PoolClsInterp(seed)
        PI.scan_sample = False
    for idx, prog in enumerate(progs):
        if time.time() - t0 > budget:
            truncated = True
            break
        ncases += 1
        pinj = None
        if inject is not None:
            pinj = inject * 1000003 + idx
            inject_order(pinj)
        status, events, text, m = I.run(prog)
        evaluations += len(events)
        if PI is not None and idx % 3 == 0:
            st2, ev2, _, _ = PI.run(prog)
            evaluations += len(ev2)
            for ev in ev2:
                if ev['verdict'] == 'viol':
                    ev['detail'] = (ev.get('detail') or '') + ' [operands are shared objects already used in other expressions]'
                    events = events + [ev]
        for ev in events:
            keys.add(key_of(ev))
        # semantic fingerprint of the outcome, compared across hash seeds / orders by the coordinator
        last = events[-1] if events else None
        if last is not None:
            if status == 'done' and text is not None and not C.parse(text).error and last['verdict'] != 'viol':
                fp = hashlib.blake2b(repr(C.unmask(C.set_of_single(text))).encode(), digest_size=6).hexdigest() \
                    if C.set_of_single(text) is not None else 'notaset'
            else:
                fp = 'exc:' + str(last.get('symptom') or last.get('verdict'))
            fps['%d/%d' % (part, idx)] = fp
            textfp['%d/%d' % (part, idx)] = hashlib.blake2b((text or '').encode('utf-8', 'surrogatepass'), digest_size=4).hexdigest()
        if idx % 131 == 3 and len(samples) < 5 and events:
            samples.append({'program': show(prog), 'emitted': events[-1]['real'], 'expected': events[-1]['expected'],
                            'verdict': events[-1]['verdict']})
        for ev in events:
            if ev['verdict'] != 'viol':
                continue
            P = props_of(ev)
            if check in P:
                sig = sig_of(ev) + ('|injected-order' if inject is not None else '')
                nviol[sig] += 1
                if nviol[sig] <= 3 and len(viols) < 60:
                    viols.append({'property': check, 'sig': sig, 'symptom': ev['symptom'], 'detail': ev['detail'], 'event': ev,
                                  'case': {'kind': 'cls', 'prog': prog, 'inject': pinj, 'history': 'shared objects' in (ev.get('detail') or '')}, 'show': show(prog),
                                  'injected': inject is not None})
            else:
                other['|'.join(sorted(P)) + ':' + (ev['symptom'] or '').split(':')[0]] += 1
    return {
        'evaluations': evaluations, 'cases': ncases, 'keys': sorted(keys), 'violations': viols, 'viol_counts': dict(nviol),
        'other_property_violations': dict(other), 'stats': dict(I.stats), 'by_op': dict(I.by_op), 'samples': samples,
        'monitor_errors': I.monitor_errors[:5], 'timeouts': 0, 'truncated': truncated,
        'fingerprints': fps, 'text_fingerprints': textfp, 'part': part, 'inject': inject,
        'extra': {'orders_observed': len(ShuffledSet.orders), 'distinct_emitted_texts': len(set(I.texts))},
    }


def plan(check, tier, seed, tp):
    """jobs = partitions x hash seeds (+ injected orders); the same partition runs under every seed"""
    jobs = []
    hss = {'quick': [0, 1, 2], 'thorough': list(range(12))}[tier]
    nparts = {'quick': 4, 'thorough': 4}[tier]
    for h in hss:
        for p in range(nparts):
            jobs.append(('p%d.h%d' % (p, h), {'part': p, 'nparts': nparts, 'scan': h == hss[0], 'scan_all': tier == 'thorough' and h == hss[0]}, h))
    ninj = {'quick': 1, 'thorough': 12}[tier]
    for k in range(ninj):
        for p in range(nparts):
            jobs.append(('p%d.inj%d' % (p, k), {'part': p, 'nparts': nparts, 'inject': seed * 100 + k + 1}, 0))
    return jobs


def cross_check(check, shard_results):
    """offline: the same program must denote the same set (or fail alike) under every hash seed"""
    by_prog = {}
    texts = {}
    for pi, res in shard_results:
        if res.get('inject') is not None:
            continue
        for k, fp in res.get('fingerprints', {}).items():
            by_prog.setdefault(k, {})[pi['hashseed']] = fp
        for k, fp in res.get('text_fingerprints', {}).items():
            texts.setdefault(k, set()).add(fp)
    viols = []
    ndiff = 0
    for k, d in by_prog.items():
        if len(set(d.values())) > 1:
            ndiff += 1
            if len(viols) < 3:
                viols.append({'property': check, 'sig': 'class:seed-dependent|cross-seed', 'symptom': 'class:seed-dependent',
                              'detail': 'program %s: outcome fingerprints per hash seed %r' % (k, d), 'case': {'kind': 'cls-cross', 'id': k},
                              'no_replay': True, 'hashseed': sorted(d)[0]})
    info = {'programs_compared_across_seeds': len(by_prog), 'programs_with_seed_dependent_text': sum(1 for s in texts.values() if len(s) > 1),
            'programs_with_seed_dependent_outcome': ndiff}
    # an outcome that differs across seeds always comes with a direct model violation under at least one
    # seed, which carries the replayable witness; the cross-seed entry is only reported when none did
    return ([] if any(res.get('violations') for _, res in shard_results) else viols), info


def replay(case, check, seed=0):
    if case.get('kind') == 'cls-cross':
        return []
    if case.get('inject') is not None:
        inject_order(case['inject'])
    I = ClsInterp(seed)
    I.scan_all = True
    status, events, text, m = I.run(case['prog'])
    out = []
    for ev in events:
        if ev['verdict'] == 'viol' and check in props_of(ev):
            out.append({'symptom': ev['symptom'], 'detail': ev['detail'], 'event': ev, 'sig': sig_of(ev)})
    return out


def candidates(case):
    out = []
    prog = case['prog']

    def paths(n, path):
        yield path, n
        for i, c in enumerate(n.get('x', [])):
            yield from paths(c, path + [i])

    def replace(root, path, new):
        import copy
        if not path:
            return new
        root = copy.deepcopy(root)
        n = root
        for i in path[:-1]:
            n = n['x'][i]
        n['x'][path[-1]] = new
        return root
    for path, n in paths(prog, []):
        for c in n.get('x', []):
            if c.get('o') not in ('chr', 'tokv', 'bad'):
                out.append(replace(prog, path, c))
        if n['o'] == 'from' and len(n['args']) > 1:
            for i in range(len(n['args'])):
                n2 = dict(n)
                n2['args'] = n['args'][:i] + n['args'][i + 1:]
                out.append(replace(prog, path, n2))
        if n['o'] == 'from':
            for i, a in enumerate(n['args']):
                if not isinstance(a, str):
                    n2 = dict(n)
                    n2['args'] = list(n['args'])
                    n2['args'][i] = TOKENS[a['t']] if 't' in a else a['p']
                    out.append(replace(prog, path, n2))
        if n['o'] == 'named' and n['n'] not in ('AnyDigit', 'AnyButDigit', 'Any'):
            out.append(replace(prog, path, {'o': 'named', 'n': 'AnyButDigit' if n['n'].startswith('AnyBut') else 'AnyDigit'}))
    res = []
    for p in out:
        c = dict(case)
        c['prog'] = p
        res.append(c)
    if case.get('inject') is not None:
        c = dict(case)
        c['inject'] = None
        res.insert(0, c)
    return res


CLSMETA = {'[': 'lbracket', ']': 'rbracket', '\\': 'backslash', '^': 'caret', '-': 'dash', '/': 'slash', '$': 'dollar',
           '\n': 'newline', '.': 'dot', '(': 'paren'}


def features(case, violation):
    tags = set()
    ev = violation.get('event', {})
    tags.add('op:' + str(ev.get('op')))
    tags.add('kind:' + str(ev.get('kind')))
    if case.get('inject') is not None:
        tags.add('needs:injected-order')

    def walk(n):
        o = n.get('o')
        tags.add('has:' + o)
        if n.get('neg'):
            tags.add('negated')
        for a in n.get('args', []) + [n.get('a'), n.get('b')]:
            if a is None:
                continue
            if isinstance(a, dict):
                tags.add('arg:token' if 't' in a else 'arg:pregex')
                c = TOKENS[a['t']] if 't' in a else a['p']
            else:
                c = a
            if c in CLSMETA:
                tags.add('char:' + CLSMETA[c])
        if o == 'from':
            tags.add('from:%s' % ('1' if len(n['args']) == 1 else 'n'))
        for c in n.get('x', []):
            walk(c)
    if isinstance(case.get('prog'), dict):
        walk(case['prog'])
    return sorted(tags)
