"""Registry: which module decides which property, tier parameters, evidence rules."""
import importlib

SPEC = {
    # id: (module, title, rule, min distinct non-trivial events for a verdict)
    'C01': ('rv.dsl', 'plain strings are matched literally',
            'hostile string corpus x every str-accepting position (W1xW2); an event = one public API call judged '
            'against the fully parenthesised, numerically escaped reference; distinct = distinct (operation, '
            'spelling, operand shapes); non-trivial = some operand is not a single benign letter', 2000),
    'C02': ('rv.dsl', 'composition keeps every sub-pattern intact',
            'bounded-exhaustive depth-1 programs over the leaf basis, sampled/exhaustive depth-2, random deep programs '
            'in all three spellings (W3, W4); distinct/non-trivial as for C01', 2000),
    'C03': ('rv.dsl', 'every call yields a compilable, exportable pattern or a documented exception',
            'documented-invalid arguments, stress programs, valid raw regular expressions (escape=False) under every template, meta patterns as operands, deep / '
            'many-operand / big-bound programs, W3, W4, W5 under the compile/export/exception-type oracle; class and meta engines under the same oracle', 2000),
    'C04': ('rv.dsl', 'quantifier bounds, greediness and spellings are exact',
            'quantifier lattice W5: operand basis x all (n,m) incl. invalid x greediness x spellings, plus random operands', 2000),
    'C05': ('rv.dsl', 'the empty pattern is neutral',
            'all empty spellings x every operator position, random programs with injected empties, pruned-vs-unpruned '
            'metamorphic comparison', 1000),
    'C08': ('rv.dsl', 'capturing-group structure is exactly what the expression spells out',
            'nested Capture/Group (named, unnamed, flagged) around lookarounds, conditionals, backreferences, '
            'group-lookalike literals', 1000),
    'C09': ('rv.dsl', 'only anchored / positive-lookaround patterns are refused repetition',
            'hostile corpus and assertion instances x all quantifier forms', 1000),
    'C10': ('rv.dsl', 'lookbehinds are accepted iff fixed width',
            'assertion operands on both sides of the fixed-width line x 4 lookbehind kinds x spellings', 500),
    'C06': ('rv.cls', 'class constructors denote exactly the requested character sets',
            'AnyFrom over all singletons/pairs/sampled tuples of a 70-character hostile basis (str and token arguments), '
            'AnyBetween/AnyButBetween over all ordered pairs, every named/negated/token class, documented invalid arguments; '
            'each emitted class is scanned over all 1,114,112 code points and compared with the model set, under several '
            'PYTHONHASHSEEDs and injected set-iteration orders; distinct = distinct (constructor, argument shapes)', 1000),
    'C07': ('rv.cls', 'class union, subtraction and negation are exact set algebra',
            'all A|B, A-B, ~A, ~~A over an 85-class basis, range pairs in all 13 Allen relations x gaps across bracket '
            'metacharacters, random chains; result scanned over all of Unicode vs interval algebra on the operand models, '
            'under several PYTHONHASHSEEDs and injected set-iteration orders', 1000),
    'C11': ('rv.api', 'matching methods return exactly what re finds, compiled or not',
            'generated patterns (every mixture of named/unnamed/nested/optional/empty-capable groups, empty-width, multi-line) '
            'x generated texts x histories over compile()/get_compiled_pattern(True|False)/purge()/partial iteration/aliasing; '
            'every return value compared with a fresh re.compile(str(p), M|S); distinct = distinct (pattern, history)', 500),
    'C12': ('rv.api', 'capture extraction is consistent with the source and group identity',
            'as C11, all capture methods x include_empty x relative_to_match, plus slice laws on the returned positions', 300),
    'C13': ('rv.api', 'splitting and replacing reconstruct the source exactly',
            'as C11; split_by_capture on patterns whose captures neither nest nor sit in lookarounds (alternated / repeated groups included, spans in text order); '
            'reconstruction laws', 300),
    'C14': ('rv.api', 'file sources and context windows refer to the text, not the path',
            'every is_path method on text vs temp file (audit hook on open; CR / CRLF, BOM, decomposed characters, one file > 2**20 characters, the same path '
            'rewritten with equal byte length), windows over {0,1,2,5,len,len+3}^2 and the defaults, invalid sizes', 100),
    'C15': ('rv.meta', 'Integer patterns match exactly the canonical numerals in range',
            'ranges from all digit-length combinations 1..6 x boundary shapes x 5 sign variants; per range boundary/length-shifted/'
            'leading-zero candidates alone (text start and end) and embedded in 22 contexts; every digit run judged MUST / MUST-NOT / '
            'unspecified by a numeric model; extensible forms behind 5 prefixes; distinct = distinct (constructor, parameters) cases plus distinct judged questions (object, method, input text) per shard', 100),
    'C16': ('rv.meta', 'Decimal patterns constrain integer part and fraction length exactly',
            'ranges x fraction bounds x 5 variants; tokens sign+int+.+fraction with boundary/leading-zero/missing int parts and fraction '
            'lengths min-1..max+1, exact and embedded', 100),
    'C17': ('rv.meta', 'Numeral and Word patterns enforce alphabet, length and affix exactly',
            'all bases 2..16 x 12 bound pairs; Word bounds x is_global; affix lists incl. metacharacters (structural reference)', 100),
    'C18': ('rv.meta', 'IPv4 and IPv6 accept exactly the standard textual addresses',
            'IPv4: every octet value 0..300 (+ zero-padded) in every position; IPv6: every shape of 0..9 groups x every :: position x '
            'group-length classes (enumerated completely) + random hex content, against the ipaddress module; glue law on embedded matches', 50),
    'C19': ('rv.meta', 'Date patterns match exactly the selected numeric formats',
            'each of the 48 formats alone, all together, random subsets; every part value 00..99/0..9/bad lengths, both and mixed '
            'separators, both is_extensible, against a direct parser of the format strings; invalid formats', 30),
    'C20': ('rv.hist', 'Pregex objects are immutable values; results do not depend on history',
            'every DSL / class program built from fresh leaves and again from a pool of shared sub-objects that were compiled, '
            'matched with, used as operands and aliased; operand snapshots around every call and at the end; the same program '
            'list built under several PYTHONHASHSEEDs in separate processes with semantic fingerprints compared offline', 1000),
}

TIERS = {
    'quick': {'nshards': 16, 'hashseeds': [0], 'shard_timeout': 150, 'budget': 45},
    'thorough': {'nshards': 16, 'hashseeds': [0], 'shard_timeout': 700, 'budget': 420},
}


def module_of(check):
    return importlib.import_module(SPEC[check][0])
