"""Matching-API monitors (C11-C14): every return value of the public matching / extraction /
splitting / replacing methods is compared with what a freshly compiled re pattern finds, across
histories of compile()/get_compiled_pattern()/purge() on shared instances, with file sources
observed through an audit hook.  (DESIGN.md section 4, C11-C14.)"""
import collections
import hashlib
import os
import random
import signal
import re
import sys
import tempfile
import time

from . import canon as C
from . import shadow as S
from . import judge as J
from .interp import Pregex, CL, OP, QU, GR, AS, EX, LIBEXC

FL = re.M | re.S

# ------------------------------------------------------------------ audit hook (O8)
_audit = {'on': False, 'events': []}


def _hook(event, args):
    if _audit['on'] and event == 'open':
        try:
            _audit['events'].append((str(args[0]), args[1]))
        except Exception:
            pass


_hook_installed = False


def install_hook():
    global _hook_installed
    if not _hook_installed:
        sys.addaudithook(_hook)
        _hook_installed = True


class Recording:
    def __enter__(self):
        _audit['events'] = []
        _audit['on'] = True
        return self

    def __exit__(self, *a):
        _audit['on'] = False
        self.events = list(_audit['events'])


# ------------------------------------------------------------------ pattern generators
ATOMS = ['a', 'b', 'ab', '[ab]', '.', '\\d', 'x?', 'a*', '(?:ab)+', '', '\\b', '^', '$', '\\n', 'c', '[^a]', 'a|b', '\\w+', ' ',
         'a{2}', '(?=b)', '(?<!a)', 'é', '.*?', '\\s', '(?=(b))', '(?=(?P<la>a)(b)?)', '\\b(?=(\\w+))', '(?<=(a))', '(?=(x?))', 'A', '[A-Z]b',
         '\\\\', "\\\\'", "'", '"', '\\\\(', "it's", '\\\\"', '\\A', '\\Z', '\\B', 'a??', '(?:\\b|ab)', 'a|ab', '\\d+?', '(?<=(?P<lb>a))b', '(?<=(?P<lb2>.))', '(?=(?P<la2>b))a?', '(?:(a)|(b))+', '(?:(?P<r1>b)|(a)|c)*d?', '(?:(a)(b)?)+',
         '\\\n', 'a\\\nb', '\\\t']


def gen_pattern(rnd, sequential=False):
    """regex text with a random mixture/order of named, unnamed, nested, optional, empty-capable groups.
    sequential=True: captures are sequential siblings, never nested / repeated / alternated (C13 law)."""
    parts = []
    names = iter(['n1', 'n2', 'n3', 'n4', 'n5', 'n6'])
    ngroups = 0
    for _ in range(rnd.choice([1, 2, 3, 4, 5])):
        a = rnd.choice(ATOMS)
        if sequential and ('|' in a or '(?=' in a or '(?<' in a or '(?!' in a or re.search(r'\((?!\?:)', a)):
            a = 'a'
        k = rnd.random()
        if ngroups >= 6:
            k = 1.0
        if k < 0.22:
            a = '(%s)' % a
            ngroups += 1
        elif k < 0.42:
            a = '(?P<%s>%s)' % (next(names), a)
            ngroups += 1
        elif k < 0.52:
            a = '(%s)?' % a
            ngroups += 1
        elif k < 0.60:
            a = '(?P<%s>%s)?' % (next(names), a)
            ngroups += 1
        elif k < 0.70 and not sequential:
            a = '((?P<%s>%s)b?)' % (next(names), a)
            ngroups += 2
        elif k < 0.76 and not sequential:
            a = '(?:(%s)|(?P<%s>c))' % (a, next(names))
            ngroups += 2
        elif k < 0.80 and not sequential:
            a = '(%s)+' % (a or 'a')
            ngroups += 1
        elif '|' in a:
            a = '(?:%s)' % a
        parts.append(a)
    p = ''.join(parts)
    if not sequential and rnd.random() < 0.08:
        # an anchor that belongs to the first (or last) alternative of a top-level alternation only
        p = rnd.choice(['\\A%s|%s', '^%s|%s', '%s|%s$', '%s|%s\\Z', '\\b%s|%s']) % (rnd.choice(['id', 'a', '#', 'b+']), p)
    if not sequential and rnd.random() < 0.2:
        p = '(?:%s)|%s' % (p, rnd.choice(['(c)', 'c', '(?P<z>c)?']))
    return p


DSL_OBJECTS = [
    lambda: GR.Capture('a') + QU.Optional('b'),
    lambda: GR.Capture('a') + GR.Capture('b', 'n'),
    lambda: GR.Capture('a', 'first') + GR.Capture(GR.Capture('b', 'inner') + 'c') + QU.Optional(GR.Capture('d', 'last')),
    lambda: OP.Either(GR.Capture('x'), GR.Capture('y', 'yy')),
    lambda: CL.AnyLetter() + GR.Capture(2 * CL.AnyLetter()),
    lambda: QU.OneOrMore(CL.AnyDigit()),
    lambda: AS.MatchAtLineStart(QU.OneOrMore(CL.AnyButWhitespace())),
    lambda: AS.MatchAtLineEnd(QU.OneOrMore(CL.AnyLetter())),
    lambda: QU.Indefinite(CL.Any()),
    lambda: AS.FollowedBy(GR.Capture(QU.OneOrMore(CL.AnyLetter()), 'w'), ' '),
    lambda: GR.Group('ab', is_case_insensitive=True) + GR.Capture(QU.Optional('C')),
    lambda: Pregex(),
    lambda: AS.WordBoundary() + GR.Capture(QU.Indefinite('a'), 'as') + AS.WordBoundary(),
    lambda: QU.Optional(GR.Capture('a', 'o1')) + GR.Capture('b') + QU.Optional(GR.Capture('c', 'o2')),
    lambda: Pregex('a.b') + GR.Capture(Pregex('$')),
    lambda: Pregex('\\') + GR.Capture(QU.OneOrMore(CL.AnyWordChar())),
    lambda: Pregex("\\'") + QU.Optional(GR.Capture('q', 'qq')),
    lambda: GR.Capture(Pregex('\\')) + GR.Capture(QU.Indefinite(CL.AnyLetter()), 'w'),
    lambda: OP.Either(AS.MatchAtStart('id'), 'no'),
    lambda: Pregex(re.escape('a\nb\tc'), escape=False) + GR.Capture(QU.Optional('d')),
    lambda: QU.OneOrMore(OP.Either(GR.Capture('a'), GR.Capture('b', 'bb'))),
    lambda: OP.Either(GR.Capture('a'), AS.MatchAtLineEnd(GR.Capture('b', 'e'))),
    lambda: '<' + QU.OneOrMore(CL.Any()) + '>',
    lambda: GR.Capture(QU.OneOrMore(CL.Any(), is_greedy=False)) + AS.MatchAtLineEnd(Pregex()),
    lambda: OP.Either('a', 'ab') + QU.Optional(GR.Capture('c'), is_greedy=False),
    lambda: Pregex('a\\') + GR.Capture(Pregex('b') | CL.AnyDigit()) if False else Pregex('a\\') + GR.Capture(CL.AnyDigit() | 'b'),
]

TEXT_PARTS = ['a', 'b', 'ab', 'x', ' ', '\n', '1', 'c', '', 'aa', 'abab', 'é', 'A', '$', 'a.b', '\t', 'd', 'C', '12', 'ba',
              '\U0001F600', '\x00', 'ß', 'aé', '\n\n', 'e\u0301', 'a\u0308\u0323b', '\r\n', 'a\r\nb', '\r', '1\r\n2']


def gen_text(rnd):
    return ''.join(rnd.choice(TEXT_PARTS) for _ in range(rnd.choice([0, 1, 2, 3, 5, 8, 12])))


def texts_for(pat, rnd, n=4, allow_cr=True):
    out = [gen_text(rnd) for _ in range(n)]
    p = C.parse(pat)
    if not p.error:
        for _ in range(n):
            t = S._sample_tree(p.tree, rnd)
            out.append(rnd.choice(['', ' ', 'x', '\n']) + t + rnd.choice(['', ' ', 'b', '\n']) + (t if rnd.random() < 0.4 else ''))
        out.append('\n'.join(S._sample_tree(p.tree, rnd) for _ in range(3)))
    m = C.mask()
    out = [t for t in dict.fromkeys(out) if not any(C.contains(m, ord(ch)) for ch in t) and (allow_cr or '\r' not in t)]
    return out or ['ab a\nb']


# ------------------------------------------------------------------ expectations (from a fresh re.compile)
def exp_captures(ms, ie):
    return [tuple(g for g in m.groups() if ie or g != '') for m in ms]


def exp_captures_pos(ms, ie, rel):
    out = []
    for m in ms:
        row = []
        for gi, g in enumerate(m.groups(), 1):
            if ie or g != '':
                s, e = m.span(gi)
                if rel and s > -1:
                    s, e = s - m.start(), e - m.start()
                row.append((g, s, e))
        out.append(row)
    return out


def exp_named(ms, ie):
    return [{k: v for k, v in m.groupdict().items() if ie or v != ''} for m in ms]


def exp_named_pos(ms, ie, rel):
    out = []
    for m in ms:
        d = {}
        for k, v in m.groupdict().items():
            if ie or v != '':
                s, e = m.span(k)
                if rel and s > -1:
                    s, e = s - m.start(), e - m.start()
                d[k] = (v, s, e)
        out.append(d)
    return out


def exp_split_capture(ms, t, ie):
    pieces, idx = [], 0
    for m in ms:
        # captured spans in text order (group numbers follow the opening parentheses, not the positions:
        # '(?:(a)|(b))+' on 'ba' captures group 2 before group 1)
        spans = sorted(m.span(gi) for gi, g in enumerate(m.groups(), 1) if g is not None and (ie or g != ''))
        for s, e in spans:
            pieces.append(t[idx:s])
            idx = e
    pieces.append(t[idx:])
    return pieces


_FLAT = {}


def is_flat(pat):
    """True when no capturing group of the pattern lies inside another capturing group or inside a lookaround
    (the patterns split_by_capture is specified for: "capturing groups do not nest")"""
    if pat in _FLAT:
        return _FLAT[pat]
    import re._parser as sp
    import re._constants as sc

    def walk(items, inside):
        for op, av in items:
            if op is sc.SUBPATTERN:
                gid, _, _, sub = av
                if gid is not None and inside:
                    return False
                if not walk(sub, inside or gid is not None):
                    return False
            elif op in (sc.ASSERT, sc.ASSERT_NOT):
                if not walk(av[1], True):
                    return False
            elif op is sc.BRANCH:
                if not all(walk(b, inside) for b in av[1]):
                    return False
            elif op in (sc.MAX_REPEAT, sc.MIN_REPEAT, getattr(sc, 'POSSESSIVE_REPEAT', None)):
                if not walk(av[2], inside):
                    return False
            elif op is sc.GROUPREF_EXISTS:
                for b in av[1:]:
                    if b is not None and not walk(b, inside):
                        return False
            elif op is getattr(sc, 'ATOMIC_GROUP', None):
                if not walk(av, inside):
                    return False
        return True
    try:
        r = walk(sp.parse(pat, re.M | re.S), False)
    except Exception:
        r = False
    _FLAT[pat] = r
    return r


def exp_replace(ms, t, repl, count):
    out, idx = [], 0
    for i, m in enumerate(ms):
        if count and i >= count:
            break
        out.append(t[idx:m.start()])
        out.append(repl)
        idx = m.end()
    out.append(t[idx:])
    return ''.join(out)


# ------------------------------------------------------------------ the monitor
def _short(v, raw=False, n=700):
    r = v if raw and isinstance(v, str) else repr(v)
    return r if len(r) <= n else r[:n // 2] + ' ...[%d chars]... ' % len(r) + r[-n // 3:]


def _short_ctx(ctx):
    t = ctx.get('text')
    if isinstance(t, str) and len(t) > 2000:
        return dict(ctx, text=t[:200] + '...[%d chars]...' % len(t) + t[-200:])
    return ctx


class ApiMonitor:
    def __init__(self, check):
        self.check = check
        self.counts = collections.Counter()      # (method, cache-state) -> calls checked
        self.viols = []
        self.nchecks = 0

    def cache_state(self, p):
        c = getattr(p, '_Pregex__compiled', 'n/a')
        return 'n/a' if c == 'n/a' else ('uncompiled' if c is None else 'compiled')

    def call(self, p, method, args, kw, expected, ctx, prop, law=None):
        """invoke p.method(*args) and compare with `expected` (a value, or a set of exception names)"""
        self.nchecks += 1
        self.counts['%s|%s' % (method, self.cache_state(p))] += 1
        try:
            got = getattr(p, method)(*args, **kw)
            if method.startswith('iterate_'):
                got = list(got)
            out = ('ok', got)
        except LIBEXC as e:
            out = ('exc', type(e).__name__)
        except RecursionError:
            out = ('crash', 'RecursionError')
        except Exception as e:
            out = ('crash', type(e).__name__ + ': ' + str(e)[:80])
        if isinstance(expected, ExpectExc):
            ok = out[0] == 'exc' and out[1] in expected.names
            want = 'exception ' + '|'.join(expected.names)
        else:
            ok = out == ('ok', expected)
            want = expected
        if not ok:
            self.viols.append({'property': prop, 'symptom': 'api:%s:%s' % (method, law or ('crash' if out[0] == 'crash' else 'value')),
                               'detail': '%s%s %r -> %s, expected %s' % (method, _short(tuple(args)), kw, _short(out[1]), _short(want)),
                               'method': method, 'ctx': _short_ctx(ctx), 'cache': self.cache_state(p)})
        return out

    def law(self, ok, method, lawname, detail, ctx, prop):
        self.nchecks += 1
        if not ok:
            self.viols.append({'property': prop, 'symptom': 'api:%s:%s' % (method, lawname), 'detail': _short(detail, raw=True), 'method': method, 'ctx': _short_ctx(ctx)})


class ExpectExc:
    def __init__(self, *names):
        self.names = names


# ------------------------------------------------------------------ per-property verification of one (object, text)
def verify_c11(M, p, c, t, ctx):
    ms = list(c.finditer(t))
    M.call(p, 'has_match', (t,), {}, bool(ms), ctx, 'C11')
    M.call(p, 'is_exact_match', (t,), {}, bool(c.fullmatch(t)), ctx, 'C11')
    M.call(p, 'get_matches', (t,), {}, [m.group(0) for m in ms], ctx, 'C11')
    M.call(p, 'iterate_matches', (t,), {}, [m.group(0) for m in ms], ctx, 'C11')
    exp = [(m.group(0), *m.span()) for m in ms]
    o = M.call(p, 'get_matches_and_pos', (t,), {}, exp, ctx, 'C11')
    M.call(p, 'iterate_matches_and_pos', (t,), {}, exp, ctx, 'C11')
    if o[0] == 'ok':
        M.law(all(isinstance(x, tuple) and len(x) == 3 and t[x[1]:x[2]] == x[0] for x in o[1]), 'get_matches_and_pos',
              'slice', 'source[start:end] != match in %r' % (o[1],), ctx, 'C11')
        spans = [(x[1], x[2]) for x in o[1]]
        M.law(all(spans[i][1] <= spans[i + 1][0] for i in range(len(spans) - 1)), 'get_matches_and_pos', 'order',
              'matches overlap or are out of order: %r' % (spans,), ctx, 'C11')


def verify_c12(M, p, c, t, ctx, tmpdir=None):
    ms = list(c.finditer(t))
    if tmpdir is not None and M.nchecks % 5 == 0:
        # the same extraction from a file source (the instance may hold a compiled pattern at this point)
        path = os.path.join(tmpdir, 'c12_%d.txt' % (M.nchecks % 7))
        with open(path, 'w', encoding='utf-8', newline='') as f:
            f.write(t)
        kw = {'is_path': True}
        M.call(p, 'get_captures', (path, True), kw, exp_captures(ms, True), ctx, 'C12')
        M.call(p, 'iterate_captures_and_pos', (path, False, True), kw, exp_captures_pos(ms, False, True), ctx, 'C12')
        M.call(p, 'get_named_captures', (path, False), kw, exp_named(ms, False), ctx, 'C12')
        M.call(p, 'get_named_captures_and_pos', (path, True, False), kw, exp_named_pos(ms, True, False), ctx, 'C12')
    for ie in (True, False):
        M.call(p, 'get_captures', (t, ie), {}, exp_captures(ms, ie), ctx, 'C12')
        M.call(p, 'iterate_captures', (t,), {'include_empty': ie}, exp_captures(ms, ie), ctx, 'C12')
        M.call(p, 'get_named_captures', (t, ie), {}, exp_named(ms, ie), ctx, 'C12')
        M.call(p, 'iterate_named_captures', (t, ie), {}, exp_named(ms, ie), ctx, 'C12')
        for rel in (True, False):
            o = M.call(p, 'get_captures_and_pos', (t, ie, rel), {}, exp_captures_pos(ms, ie, rel), ctx, 'C12')
            M.call(p, 'iterate_captures_and_pos', (t,), {'include_empty': ie, 'relative_to_match': rel},
                   exp_captures_pos(ms, ie, rel), ctx, 'C12')
            if o[0] == 'ok' and len(o[1]) == len(ms):
                for m, row in zip(ms, o[1]):
                    base = m.group(0) if rel else t
                    for (g, s, e) in row:
                        if g is None:
                            M.law((s, e) == (-1, -1), 'get_captures_and_pos', 'none-pos', 'None capture at %r' % ((s, e),), ctx, 'C12')
                        elif not rel or (0 <= s and e <= len(base)):
                            # (a group inside a lookaround may lie outside its match: then only the absolute form can be sliced)
                            M.law(base[s:e] == g, 'get_captures_and_pos', 'slice',
                                  'slice [%d:%d] of %s gives %r, captured %r' % (s, e, 'match' if rel else 'source', base[s:e], g), ctx, 'C12')
            o = M.call(p, 'get_named_captures_and_pos', (t, ie, rel), {}, exp_named_pos(ms, ie, rel), ctx, 'C12')
            M.call(p, 'iterate_named_captures_and_pos', (t, ie, rel), {}, exp_named_pos(ms, ie, rel), ctx, 'C12')
            if o[0] == 'ok' and len(o[1]) == len(ms):
                for m, d in zip(ms, o[1]):
                    base = m.group(0) if rel else t
                    for k, (g, s, e) in d.items():
                        if g is not None and (not rel or (0 <= s and e <= len(base))):
                            M.law(base[s:e] == g, 'get_named_captures_and_pos', 'slice',
                                  'group %r: slice [%d:%d] gives %r, captured %r' % (k, s, e, base[s:e], g), ctx, 'C12')


REPLS = ['<R>', '', 'a', 'xyz', ' ', 'é', '$1', '&', 'g<1>']


def verify_c13(M, p, c, t, ctx, sequential):
    ms = list(c.finditer(t))
    o = M.call(p, 'split_by_match', (t,), {}, None if False else _split_match(ms, t), ctx, 'C13')
    if o[0] == 'ok':
        pieces = o[1]
        M.law(len(pieces) == len(ms) + 1, 'split_by_match', 'count', '%d pieces for %d matches' % (len(pieces), len(ms)), ctx, 'C13')
        rec = ''.join(a + b for a, b in zip(pieces, [m.group(0) for m in ms] + ['']))
        M.law(rec == t, 'split_by_match', 'rebuild', 'interleaving pieces and matches gives %r, source %r' % (rec, t), ctx, 'C13')
    if sequential or is_flat(ctx['pat']):
        for ie in (True, False):
            o = M.call(p, 'split_by_capture', (t, ie), {}, exp_split_capture(ms, t, ie), ctx, 'C13')
            if o[0] == 'ok':
                caps = []
                for m in ms:
                    for (s_, e_) in sorted(m.span(gi) for gi, g in enumerate(m.groups(), 1) if g is not None and (ie or g != '')):
                        caps.append(t[s_:e_])
                pieces = o[1]
                M.law(len(pieces) == len(caps) + 1, 'split_by_capture', 'count', '%d pieces for %d captures' % (len(pieces), len(caps)), ctx, 'C13')
                rec = ''.join(a + b for a, b in zip(pieces, caps + ['']))
                M.law(rec == t, 'split_by_capture', 'rebuild', 'interleaving gives %r, source %r' % (rec, t), ctx, 'C13')
    rnd = random.Random(len(t) * 131 + len(ms))
    for cnt in sorted(set([0, 1, 2, len(ms), len(ms) + 1])):
        repl = rnd.choice(REPLS)
        M.call(p, 'replace', (t, repl, cnt), {}, exp_replace(ms, t, repl, cnt), ctx, 'C13')
    o = M.call(p, 'replace', (t, '<R>'), {}, '<R>'.join(_split_match(ms, t)), ctx, 'C13', law='join')
    M.call(p, 'replace', (t, 'x', -1), {}, ExpectExc('InvalidArgumentValueException'), ctx, 'C13', law='negative-count')
    M.call(p, 'replace', (t, 'x', -5), {}, ExpectExc('InvalidArgumentValueException'), ctx, 'C13', law='negative-count')


def _split_match(ms, t):
    out, idx = [], 0
    for m in ms:
        out.append(t[idx:m.start()])
        idx = m.end()
    out.append(t[idx:])
    return out


WINDOWS = [0, 1, 2, 5]
BADWIN = [(-1, 0, 'InvalidArgumentValueException'), (0, -3, 'InvalidArgumentValueException'), (1.5, 0, 'InvalidArgumentTypeException'),
          (0, '2', 'InvalidArgumentTypeException'), (None, 1, 'InvalidArgumentTypeException'), (True, 1, 'InvalidArgumentTypeException'),
          (1, False, 'InvalidArgumentTypeException'), (0.0, 0.0, 'InvalidArgumentTypeException'), (0, 0.0, 'InvalidArgumentTypeException'),
          (False, 0, 'InvalidArgumentTypeException'), (0, False, 'InvalidArgumentTypeException'), (0.0, 5, 'InvalidArgumentTypeException'),
          (5, 5.0, 'InvalidArgumentTypeException'), (1.0, 1, 'InvalidArgumentTypeException'), (0, -0.0, 'InvalidArgumentTypeException')]

PATH_METHODS = [
    ('has_match', ()), ('is_exact_match', ()), ('get_matches', ()), ('iterate_matches', ()), ('get_matches_and_pos', ()),
    ('iterate_matches_and_pos', ()), ('get_matches_with_context', (2, 3)), ('iterate_matches_with_context', (1, 0)),
    ('get_captures', (True,)), ('iterate_captures', (False,)), ('get_captures_and_pos', (True, True)),
    ('iterate_captures_and_pos', (False, False)), ('get_named_captures', (True,)), ('iterate_named_captures', (False,)),
    ('get_named_captures_and_pos', (True, False)), ('iterate_named_captures_and_pos', (True, True)),
    ('replace', ('<R>', 1)), ('split_by_match', ()), ('split_by_capture', (True,)),
]


def verify_c14(M, p, c, t, ctx, tmpdir, serial):
    ms = list(c.finditer(t))
    L = len(t)
    sizes = WINDOWS + [L, L + 3]
    for nl in sizes:
        for nr in sizes:
            exp = [t[max(m.start() - nl, 0):min(m.end() + nr, L)] for m in ms]
            M.call(p, 'get_matches_with_context', (t, nl, nr), {}, exp, ctx, 'C14', law='window')
    M.call(p, 'iterate_matches_with_context', (t, 1, 2), {}, [t[max(m.start() - 1, 0):min(m.end() + 2, L)] for m in ms], ctx, 'C14', law='window')
    M.call(p, 'get_matches_with_context', (t,), {}, [t[max(m.start() - 5, 0):min(m.end() + 5, L)] for m in ms], ctx, 'C14', law='window-default')
    M.call(p, 'iterate_matches_with_context', (t,), {}, [t[max(m.start() - 5, 0):min(m.end() + 5, L)] for m in ms], ctx, 'C14', law='window-default')
    M.call(p, 'iterate_matches_with_context', (t,), {'n_right': 0}, [t[max(m.start() - 5, 0):m.end()] for m in ms], ctx, 'C14', law='window-default')
    M.call(p, 'get_matches_with_context', (t,), {'n_left': 0}, [t[m.start():min(m.end() + 5, L)] for m in ms], ctx, 'C14', law='window-default')
    for nl, nr, exc in BADWIN:
        M.call(p, 'get_matches_with_context', (t, nl, nr), {}, ExpectExc(exc), ctx, 'C14', law='bad-window')
        M.call(p, 'iterate_matches_with_context', (t, nl, nr), {}, ExpectExc(exc), ctx, 'C14', law='bad-window')
    # file sources
    path = os.path.join(tmpdir, 'src%d_é.txt' % serial)
    with open(path, 'w', encoding='utf-8', newline='') as f:
        f.write(t)
    for method, extra in PATH_METHODS:
        try:
            want = getattr(p, method)(t, *extra)
            if method.startswith('iterate_'):
                want = list(want)
        except Exception as e:
            continue
        with Recording() as rec:
            o = M.call(p, method, (path,) + tuple(extra), {'is_path': True}, want, ctx, 'C14', law='path')
        opens = [e for e in rec.events if e[0] == path]
        M.law(len(opens) == 1 and (opens[0][1] is None or 'w' not in str(opens[0][1])), method, 'open-once',
              'is_path=True call opened the file %d times (%r)' % (len(opens), rec.events[:3]), ctx, 'C14')
        with Recording() as rec:
            try:
                r = getattr(p, method)(t, *extra)
                if method.startswith('iterate_'):
                    list(r)
            except Exception:
                pass
        M.law(not rec.events, method, 'no-open', 'a call without is_path opened %r' % (rec.events[:2],), ctx, 'C14')
    # the same path again, now holding another text of exactly the same byte length (a reader that remembers the
    # last file by name and size must not answer from memory)
    t2 = t[1:] + t[:1] if len(set(t)) > 1 else ('b' * len(t) if t and t[0] != 'b' else 'c' * len(t))
    if t2 != t and len(t2.encode('utf-8', 'surrogatepass')) == len(t.encode('utf-8', 'surrogatepass')):
        with open(path, 'w', encoding='utf-8', newline='') as f:
            f.write(t2)
        ctx2 = dict(ctx, text=t2, hist=list(ctx.get('hist', [])) + ['same-path-rewritten'])
        for method, extra in (('get_matches', ()), ('replace', ('<R>', 1)), ('has_match', ())):
            try:
                want = getattr(p, method)(t2, *extra)
            except Exception:
                continue
            M.call(p, method, (path,) + tuple(extra), {'is_path': True}, want, ctx2, 'C14', law='path')
    os.remove(path)


# ------------------------------------------------------------------ histories (W8)
HIST_OPS = ['compile', 'gcp_true', 'gcp_false', 'purge', 'partial_iter', 'operand', 'alias', 'verify', 'verify', 'verify', 'match_only']
HAMMER = 1100      # matching calls on one and the same instance (use counters, auto-compilation thresholds)


def run_case(M, check, case, tmpdir):
    """case = {'pat': regex text or None, 'dsl': index or None, 'texts': [...], 'hist': [...], 'sequential': bool}"""
    rnd = random.Random(case.get('seed', 0))
    try:
        if case.get('dsl') is not None:
            p = DSL_OBJECTS[case['dsl']]()
        else:
            p = Pregex(case['pat'], escape=False)
    except (RecursionError, Exception) as e:
        M.counts['ctor-failed'] += 1
        return False
    pat = str(p)
    try:
        c = re.compile(pat, FL)
    except re.error:
        M.counts['uncompilable'] += 1
        return False
    texts = case['texts']
    if case.get('big'):
        texts = [('ab ' * 360000) + 'END x9 tail x']
    ctxbase = {'pat': pat, 'hist': []}
    alias = p
    serial = [0]

    def verify(t):
        ctx = {'pat': pat, 'text': t, 'hist': list(ctxbase['hist'])}
        if check == 'C11':
            verify_c11(M, p, c, t, ctx)
        elif check == 'C12':
            verify_c12(M, p, c, t, ctx, tmpdir)
        elif check == 'C13':
            verify_c13(M, p, c, t, ctx, case.get('sequential', False))
        elif check == 'C14':
            serial[0] += 1
            verify_c14(M, p, c, t, ctx, tmpdir, serial[0])
    ti = 0
    for op in case['hist']:
        ctxbase['hist'].append(op)
        try:
            _history_op(M, check, p, pat, c, op, texts, ti, rnd, ctxbase, verify)
        except LIBEXC as e:
            M.viols.append({'property': 'C11', 'symptom': 'api:%s:crash' % op, 'detail': '%s raised %s on %r' % (op, type(e).__name__, pat),
                            'method': op, 'ctx': dict(ctxbase, pat=pat)})
            return True
        except Exception as e:
            M.viols.append({'property': 'C11', 'symptom': 'api:%s:crash' % op, 'detail': '%s raised %s: %s on %r' % (op, type(e).__name__, str(e)[:100], pat),
                            'method': op, 'ctx': dict(ctxbase, pat=pat)})
            return True
        if op == 'verify':
            ti += 1
        if str(p) != pat:
            M.viols.append({'property': 'C20', 'symptom': 'mutated-operand', 'detail': 'pattern changed from %r to %r after %s' % (pat, str(p), op),
                            'method': op, 'ctx': dict(ctxbase)})
            return True
    for t in texts[ti:ti + 2] or texts[:1]:
        verify(t)
    if check in ('C11', 'C12', 'C13') and not case.get('big'):
        _temporaries(M, c, texts, verify)
    return True


def _fresh(t):
    # a new str object equal to t whose construction allocates no other str of t's size class
    return t.encode('utf-32-le', 'surrogatepass').decode('utf-32-le', 'surrogatepass')


def _temporaries(M, c, texts, verify):
    """One long-lived instance examines run-time-built texts nobody else references: a text without any match
    (nothing keeps it alive afterwards) and then an equal-length text with matches, which CPython very often
    allocates at the address just freed. A result remembered by identity of the text shows here (round 8, C13)."""
    for t in texts[:3]:
        n = len(t)
        if n < 2 or c.search(t) is None:
            continue
        top = max(t)
        fills = ['\u2042', '\u2e3b'] if '\xff' < top <= '\uffff' else ['\U0001f600'] if top > '\uffff' else ['~', ' ', 'q', '\x01', '0']
        fill = next((f for f in fills if c.search(f * n) is None), None)
        if fill is None:
            M.counts['temp-no-filler'] += 1
            continue
        for _ in range(3):
            tmp = fill * n
            seen = id(tmp)
            verify(tmp)
            del tmp
            t2 = _fresh(t)
            M.counts['temp-pairs'] += 1
            if id(t2) == seen:
                M.counts['temp-address-reused'] += 1
            verify(t2)
            del t2


def _history_op(M, check, p, pat, c, op, texts, ti, rnd, ctxbase, verify):
    if True:
        if op == 'compile':
            p.compile()
        elif op == 'gcp_true':
            cp = p.get_compiled_pattern(True)
            check_compiled(M, cp, pat, ctxbase, check)
        elif op == 'gcp_false':
            cp = p.get_compiled_pattern(discard_after=False)
            check_compiled(M, cp, pat, ctxbase, check)
        elif op == 'purge':
            Pregex.purge()
        elif op == 'partial_iter':
            it = p.iterate_matches_and_pos(texts[ti % len(texts)])
            try:
                next(it)
            except StopIteration:
                pass
        elif op == 'operand':
            # the instance (possibly holding a compiled pattern) is used as an operand; what is derived from it is
            # a value of its own and must itself agree with re on *its* pattern
            mk = rnd.choice([lambda: p + 'x', lambda: QU.Optional(p), lambda: GR.Capture(p), lambda: 'y' + p, lambda: OP.Either(p, 'z'),
                             lambda: p.group(True), lambda: p.group(), lambda: p.capture(), lambda: p.capture('dq'), lambda: p.optional(),
                             lambda: p.group(True).group(), lambda: p.capture().group(True), lambda: p.concat('Z'), lambda: p.exactly(2)])
            try:
                q = mk()
            except LIBEXC:
                q = None
            if isinstance(q, Pregex) and q is not p:
                try:
                    cq = re.compile(str(q), FL)
                except re.error:
                    cq = None
                if cq is not None:
                    t = texts[ti % len(texts)]
                    ctx = {'pat': str(q), 'text': t, 'hist': list(ctxbase['hist']) + ['derived-from:' + pat]}
                    for tt in (t, t.swapcase(), t + 'Zx'):
                        if check == 'C11':
                            verify_c11(M, q, cq, tt, ctx)
                        elif check == 'C12':
                            verify_c12(M, q, cq, tt, ctx)
                        elif check == 'C13':
                            verify_c13(M, q, cq, tt, ctx, False)
        elif op == 'alias':
            alias = p.concat(Pregex())      # documented "returns itself" shortcut
            if rnd.random() < 0.5:
                alias.compile()
            else:
                alias.get_compiled_pattern(True)
        elif op == 'match_only':
            p.has_match(texts[ti % len(texts)])
        elif op == 'hammer':
            t = texts[ti % len(texts)]
            for k in range(HAMMER):
                (p.has_match, p.is_exact_match, p.get_matches)[k % 3](t)
            for t in texts:
                verify(t)
        elif op == 'verify':
            verify(texts[ti % len(texts)])


def check_compiled(M, cp, pat, ctxbase, check):
    if check != 'C11':
        return
    ctx = {'pat': pat, 'hist': list(ctxbase['hist'])}
    behavioural = re.I | re.M | re.S | re.X | re.A | re.L
    M.law(isinstance(cp, re.Pattern) and (cp.flags & behavioural) == FL, 'get_compiled_pattern', 'flags',
          'flags %r' % (getattr(cp, 'flags', None),), ctx, 'C11')
    if isinstance(cp, re.Pattern):
        a, b = C.parse(cp.pattern), C.parse(pat)
        M.law(not a.error and a.key == b.key, 'get_compiled_pattern', 'tree', 'compiled from %r, pattern is %r' % (cp.pattern, pat), ctx, 'C11')


HAMMER_CASES = [('(.+)>', ['x <first\nsecond> y', 'a\nb>\nb']), ('^b|a$', ['a\nb\na', 'b\na\nb']), ('(?P<n1>.)$', ['ab\ncd', 'x']),
                ('<(.*?)>(\\n)?', ['<a\nb>\n<c>', '<>'])]


def gen_case(rnd, check, tier, idx):
    if idx < len(HAMMER_CASES) and check != 'C14':
        pat, texts = HAMMER_CASES[idx]
        return {'seed': rnd.randrange(1 << 30), 'sequential': False, 'pat': pat, 'texts': list(texts), 'hist': ['verify', 'hammer'] + (['compile', 'verify'] if idx % 2 else [])}
    sequential = check == 'C13' and rnd.random() < 0.6
    case = {'seed': rnd.randrange(1 << 30), 'sequential': sequential}
    if rnd.random() < 0.08 and not sequential:
        case['dsl'] = rnd.randrange(len(DSL_OBJECTS))
        try:
            pat = str(DSL_OBJECTS[case['dsl']]())
        except Exception:
            pat = 'a'
    else:
        pat = gen_pattern(rnd, sequential)
        if rnd.random() < 0.07:
            # long patterns (beyond any small internal buffer / cache-key length)
            # (fixed-width atoms only: long runs of adjacent quantifiers backtrack polynomially and can hang a shard)
            pat = ''.join(rnd.choice(['ab', '[ab]', 'a', '\\d', 'x', '.', 'c', 'b', ' ', '[^z]']) for _ in range(rnd.choice([30, 45, 70, 130]))) + \
                rnd.choice(['', '(z)?', '(?P<n1>y)', 'q'])
        if C.parse(pat).error:
            pat = 'a(b)?'
        case['pat'] = pat
    case['texts'] = texts_for(pat, rnd, 3 if tier == 'quick' else 5, allow_cr=True)
    if sequential or not re.search(r'[*+]\)[*+?{]|\)\+|\)\*', pat):
        if rnd.random() < 0.12:
            # a long text: positions beyond the small-int range, many matches
            base = ' '.join(case['texts'])
            case['texts'] = [(base + ' ') * (300 // (len(base) + 1) + 2)] + case['texts'][:1]
    if check == 'C14' and rnd.random() < 0.15:
        case['texts'] = ['\ufeff' + case['texts'][0]] + case['texts'][1:]
    hl = rnd.choice([0, 1, 2, 3, 5, 8, 12]) if tier == 'quick' else rnd.choice([0, 2, 5, 12, 25, 40])
    case['hist'] = [rnd.choice(HIST_OPS) for _ in range(hl)]
    if rnd.random() < 0.004 and check != 'C14':
        case['hist'].append('hammer')
    return case


CASE_TIMEOUT = 6


class ApiTimeout(BaseException):
    """raised by the SIGALRM handler; BaseException so that no 'except Exception' of the monitors swallows it"""


def _alarm(signum, frame):
    raise ApiTimeout()


NCASES = {'C11': (9000, 90000), 'C12': (5000, 50000), 'C13': (7000, 70000), 'C14': (1400, 14000)}


def run_shard(ctx):
    check, tier, seed, shard, nshards = ctx['check'], ctx['tier'], ctx['seed'], ctx['shard'], ctx['nshards']
    install_hook()
    rnd = random.Random((seed * 7919 + shard) * 13 + int(check[1:]))
    M = ApiMonitor(check)
    tmpdir = tempfile.mkdtemp(prefix='rv_api_')
    t0 = time.time()
    budget = ctx.get('budget', 45)
    n = NCASES[check][0 if tier == 'quick' else 1] // nshards
    keys = set()
    viols = []
    nviol = collections.Counter()
    other = collections.Counter()
    samples = []
    ncases = 0
    hists = set()
    truncated = False
    timeouts = 0
    special = []
    if check == 'C14' and shard == 0:
        # one source longer than 2**20 characters (block-wise readers, size limits); the text is built at run time
        special.append({'seed': 1, 'sequential': False, 'pat': 'x\\d|END', 'big': True, 'texts': [], 'hist': ['verify']})
    try:
        for i in range(n):
            if time.time() - t0 > budget:
                truncated = True
                break
            case = special.pop() if special else gen_case(rnd, check, tier, i)
            before = len(M.viols)
            # per-case watchdog: a generated pattern/text pair may send re into catastrophic backtracking (in the
            # library call or in the oracle alike); such a case is counted as a timeout, never as a verdict
            old_handler = signal.signal(signal.SIGALRM, _alarm)
            signal.alarm(CASE_TIMEOUT)
            try:
                ran = run_case(M, check, case, tmpdir)
            except ApiTimeout:
                timeouts += 1
                del M.viols[before:]
                continue
            finally:
                signal.alarm(0)
                signal.signal(signal.SIGALRM, old_handler)
            if not ran:
                continue
            ncases += 1
            keys.add(hashlib.blake2b(repr((case.get('pat'), case.get('dsl'), tuple(case['hist']))).encode('utf-8', 'surrogatepass'),
                                     digest_size=8).hexdigest())
            hists.add(tuple(case['hist']))
            if i % 53 == 2 and len(samples) < 5:
                samples.append({'pattern': case['pat'] if 'pat' in case else 'DSL#%d' % case['dsl'], 'texts': case['texts'][:2], 'history': case['hist']})
            for v in M.viols[before:]:
                if v['property'] == check:
                    sig = '%s|%s' % (v['symptom'], v.get('cache', ''))
                    nviol[sig] += 1
                    if nviol[sig] <= 2 and len(viols) < 40:
                        viols.append({'property': check, 'sig': sig, 'symptom': v['symptom'], 'detail': v['detail'],
                                      'case': dict(case, kind='api'), 'show': '%r on %r after %r' % (v['ctx'].get('pat'), v['ctx'].get('text'), v['ctx'].get('hist'))})
                else:
                    other[v['property'] + ':' + v['symptom']] += 1
            del M.viols[before:]
    finally:
        import shutil
        shutil.rmtree(tmpdir, ignore_errors=True)
    return {
        'evaluations': M.nchecks, 'cases': ncases, 'keys': sorted(keys), 'violations': viols, 'viol_counts': dict(nviol),
        'other_property_violations': dict(other), 'stats': {'checks': M.nchecks, 'ctor-failed': M.counts.get('ctor-failed', 0)},
        'by_op': {k: v for k, v in M.counts.items()}, 'samples': samples, 'monitor_errors': [], 'timeouts': timeouts, 'truncated': truncated,
        'extra': {'distinct_histories': len(hists)},
    }


def replay(case, check, seed=0):
    install_hook()
    M = ApiMonitor(check)
    tmpdir = tempfile.mkdtemp(prefix='rv_api_')
    try:
        run_case(M, check, case, tmpdir)
    finally:
        import shutil
        shutil.rmtree(tmpdir, ignore_errors=True)
    return [{'symptom': v['symptom'], 'detail': v['detail'], 'event': {'op': v['method'], 'cache': v.get('cache')}, 'sig': v['symptom']}
            for v in M.viols if v['property'] == check]


def candidates(case):
    out = []
    if case.get('hist'):
        for i in range(len(case['hist'])):
            c = dict(case)
            c['hist'] = case['hist'][:i] + case['hist'][i + 1:]
            out.append(c)
    if len(case.get('texts', [])) > 1:
        for i in range(len(case['texts'])):
            c = dict(case)
            c['texts'] = case['texts'][:i] + case['texts'][i + 1:]
            out.append(c)
    for i, t in enumerate(case.get('texts', [])):
        for j in range(len(t)):
            c = dict(case)
            c['texts'] = list(case['texts'])
            c['texts'][i] = t[:j] + t[j + 1:]
            out.append(c)
    return out


def features(case, violation):
    tags = set()
    sym = violation.get('symptom', '')
    tags.add('method:' + sym.split(':')[1] if sym.count(':') >= 1 else 'method:?')
    pat = case.get('pat') or ''
    if '(?P<' in pat:
        tags.add('pat:named-group')
    if re.search(r'\((?!\?)', pat):
        tags.add('pat:unnamed-group')
    if re.search(r'\((?!\?)[^)]*\)[^(]*\(\?P<', pat) or re.search(r'\(\((?!\?)', pat):
        tags.add('pat:unnamed-before-named')
    if any(h in ('compile', 'gcp_false') for h in case.get('hist', [])):
        tags.add('hist:compiled')
    ev = violation.get('event', {})
    if ev.get('cache'):
        tags.add('cache:' + ev['cache'])
    return sorted(tags)
