"""Instrumentation layer (DESIGN.md section 3.2): hooks without editing the repository.

install() replaces, in the class __dict__ of every public class of pregex.core.* and
pregex.meta.essentials, __init__, the builder methods, the operators and the matching API by
wrappers that record a call event, invoke the original, hand the outcome to the same oracle the
program interpreter uses, re-raise / return unchanged, and carry a shadow for every object.
Calls made by pregex.core itself are *nested* (only counted and shadowed); calls that come from
outside pregex.core - a workload, a unit test, or pregex.meta.essentials - are *boundary* events
and are judged.
"""
import collections
import functools
import re

from . import canon as C, shadow as S, judge as J
from . import interp as IT
from .interp import Pregex, CL, TK, OP, QU, GR, AS, EX, LIBEXC, Interp, Abort

import pregex.meta.essentials as ME  # noqa: E402

W = Interp(seed=12345, nprobes=10)          # the monitor state (stats, events)
STORE = {}                                   # id(obj) -> (obj, shadow)
BYTEXT = {}                                  # emitted text -> shadow (adoption)
depth = [0]
counts = collections.Counter()
violations = []                              # (props, event json)
api_viol = []
installed = [False]
MAXSTORE = 200000


def sh_of(x):
    if isinstance(x, str):
        return S.Lit(x)
    if isinstance(x, Pregex):
        e = STORE.get(id(x))
        if e is not None and e[0] is x:
            return e[1]
        t = str(x)
        return S.Raw(t)
    return x


def set_sh(obj, sh):
    if len(STORE) > MAXSTORE:
        STORE.clear()
        BYTEXT.clear()
    STORE[id(obj)] = (obj, sh)
    BYTEXT[str(obj)] = sh


def opnd(v):
    """value in a pattern position -> shadow (or Expect type error)"""
    return S.operand(sh_of(v)) if isinstance(v, (str, Pregex)) else S.operand(v)


ANCH = {'match_at_start': 'mas', 'match_at_end': 'mae', 'match_at_line_start': 'mals', 'match_at_line_end': 'male'}
LK = {'followed_by': 'fol', 'not_followed_by': 'nfol', 'preceded_by': 'pre', 'not_preceded_by': 'npre',
      'enclosed_by': 'enc', 'not_enclosed_by': 'nenc'}
CANCH = {'MatchAtStart': 'mas', 'MatchAtEnd': 'mae', 'MatchAtLineStart': 'mals', 'MatchAtLineEnd': 'male'}
CLK = {'FollowedBy': 'fol', 'NotFollowedBy': 'nfol', 'PrecededBy': 'pre', 'NotPrecededBy': 'npre', 'EnclosedBy': 'enc',
       'NotEnclosedBy': 'nenc'}
QMETH = {'optional', 'indefinite', 'one_or_more', 'exactly', 'at_least', 'at_most', 'at_least_at_most', '__mul__', '__rmul__'}
QCLS = {'Optional', 'Indefinite', 'OneOrMore', 'Exactly', 'AtLeast', 'AtMost', 'AtLeastAtMost'}


def flags_of(op):
    if op in QMETH or op in QCLS:
        return ['quant']
    if op in ('capture', 'group', 'Capture', 'Group', 'Conditional', 'Backreference'):
        return ['group']
    if op in LK or op in CLK:
        k = LK.get(op) or CLK.get(op)
        return ['look', 'lookbehind'] if k in ('pre', 'npre', 'enc', 'nenc') else ['look']
    if op in ANCH or op in CANCH:
        return ['anchor']
    return []


def method_spec(op, self_sh, args, kw):
    def g(name, i, default):
        return kw.get(name, args[i] if len(args) > i else default)
    if op == 'concat':
        a = opnd(g('pre', 0, None))
        return S.cat([self_sh, a] if g('on_right', 1, True) else [a, self_sh])
    if op == '__add__':
        return S.cat([self_sh, opnd(args[0])])
    if op == '__radd__':
        return S.cat([opnd(args[0]), self_sh])
    if op == 'either':
        a = opnd(g('pre', 0, None))
        return Interp._either(self_sh, a, g('on_right', 1, True))
    if op == 'enclose':
        return S.enclose(self_sh, opnd(g('pre', 0, None)))
    if op == 'optional':
        return S.quant(self_sh, 0, 1, g('is_greedy', 0, True))
    if op == 'indefinite':
        return S.quant(self_sh, 0, None, g('is_greedy', 0, True))
    if op == 'one_or_more':
        return S.quant(self_sh, 1, None, g('is_greedy', 0, True))
    if op == 'exactly':
        n = g('n', 0, None)
        return S.quant(self_sh, n, n, True, S.check_bounds(n, None, False, False))
    if op in ('__mul__', '__rmul__'):
        n = args[0]
        return S.quant(self_sh, n, n, True, S.check_bounds(n, None, False, False))
    if op == 'at_least':
        n = g('n', 0, None)
        return S.quant(self_sh, n, None, g('is_greedy', 1, True), S.check_bounds(n, None, False, False))
    if op == 'at_most':
        n = g('n', 0, None)
        if n is None:
            return S.quant(self_sh, 0, None, g('is_greedy', 1, True))
        return S.quant(self_sh, 0, n, g('is_greedy', 1, True), S.check_bounds(0, n, True, False))
    if op == 'at_least_at_most':
        n, m = g('n', 0, None), g('m', 1, None)
        return S.quant(self_sh, n, m, g('is_greedy', 2, True), S.check_bounds(n, m, True, True))
    if op == 'capture':
        return S.capture(self_sh, g('name', 0, None))
    if op == 'group':
        return S.group(self_sh, g('is_case_insensitive', 0, False))
    if op in ANCH:
        return S.anchor(ANCH[op], self_sh)
    if op in LK:
        return S.look(LK[op], self_sh, opnd(g('pre', 0, None)))
    raise KeyError(op)


def ctor_spec(name, args, kw):
    def g(kwname, i, default):
        return kw.get(kwname, args[i] if len(args) > i else default)
    if name in ('Concat', 'Either', 'Enclose'):
        xs = [opnd(x) for x in args]
        if name == 'Concat':
            fn = S.cat
        elif name == 'Either':
            fn = S.alt
        else:
            def fn(ys):
                x = ys[0]
                for e in ys[1:]:
                    x = S.enclose(x, e)
                return x
        if len(xs) < 2:
            raise S.Expect(S.T_ARGS, also=fn(xs) if xs else S.EMPTY)
        return fn(xs)
    if name in QCLS:
        x = opnd(g('pre', 0, None))
        if name == 'Optional':
            return S.quant(x, 0, 1, g('is_greedy', 1, True))
        if name == 'Indefinite':
            return S.quant(x, 0, None, g('is_greedy', 1, True))
        if name == 'OneOrMore':
            return S.quant(x, 1, None, g('is_greedy', 1, True))
        if name == 'Exactly':
            n = g('n', 1, None)
            return S.quant(x, n, n, True, S.check_bounds(n, None, False, False))
        if name == 'AtLeast':
            n = g('n', 1, None)
            return S.quant(x, n, None, g('is_greedy', 2, True), S.check_bounds(n, None, False, False))
        if name == 'AtMost':
            n = g('n', 1, None)
            if n is None:
                return S.quant(x, 0, None, g('is_greedy', 2, True))
            return S.quant(x, 0, n, g('is_greedy', 2, True), S.check_bounds(0, n, True, False))
        n, m = g('n', 1, None), g('m', 2, None)
        return S.quant(x, n, m, g('is_greedy', 3, True), S.check_bounds(n, m, True, True))
    if name == 'Capture':
        return S.capture(opnd(g('pre', 0, None)), g('name', 1, None))
    if name == 'Group':
        return S.group(opnd(g('pre', 0, None)), g('is_case_insensitive', 1, False))
    if name in CANCH:
        return S.anchor(CANCH[name], opnd(g('pre', 0, None)))
    if name == 'WordBoundary':
        return S.N('Bound', t='\\b')
    if name == 'NonWordBoundary':
        return S.N('Bound', t='\\B')
    if name in CLK:
        x = opnd(g('match', 0, None))
        return S.lookaround(CLK[name], x, [opnd(a) for a in args[1:]])
    if name == 'Backreference':
        return S.backref(g('ref', 0, None))
    if name == 'Conditional':
        nm = g('name', 0, None)
        a = opnd(g('pre1', 1, None))
        b = g('pre2', 2, None)
        return S.conditional(nm, a, opnd(b) if b is not None else None)
    raise KeyError(name)


def record(ev):
    if ev.verdict == 'viol':
        from .dsl import props_of
        violations.append((sorted(props_of(ev)), ev.json()))


def boundary_call(op, thunk, shadow_thunk, operands):
    """returns shadow for the result (or None)"""
    W.events = []
    try:
        real, sh = W.call(op, 'w', thunk, shadow_thunk, operands, flags_of(op))
        for ev in W.events:
            record(ev)
        return sh
    except Abort:
        for ev in W.events:
            record(ev)
        return None
    except S.MonitorError as e:
        W.monitor_errors.append(str(e)[:300])
        return None
    except IT.CaseTimeout:
        return None
    except RecursionError:
        return None


def nested_shadow(shadow_thunk, result):
    try:
        exp = shadow_thunk()
        return exp
    except S.Expect as e:
        return e.also if e.also is not None else S.Raw(str(result))
    except (S.Unspec, S.MonitorError):
        return S.Raw(str(result))
    except Exception:
        return S.Raw(str(result))


def wrap_method(cls, name):
    orig = cls.__dict__[name]

    @functools.wraps(orig)
    def w(self, *a, **k):
        boundary = depth[0] == 0
        self_sh = sh_of(self)
        box = {}

        def thunk():
            depth[0] += 1
            try:
                box['r'] = orig(self, *a, **k)
                return box['r']
            except BaseException as e:
                box['e'] = e
                raise
            finally:
                depth[0] -= 1
        spec = lambda: method_spec(name, S.operand(self_sh), a, k)   # noqa: E731
        counts[('boundary' if boundary else 'nested', name)] += 1
        if boundary:
            ops = [(self, self_sh)] + [(x, sh_of(x)) for x in a if isinstance(x, (str, Pregex))]
            sh = boundary_call(name, thunk, spec, ops)
            if 'r' in box and isinstance(box['r'], Pregex) and box['r'] is not self:
                set_sh(box['r'], sh if sh is not None else S.Raw(str(box['r'])))
        else:
            try:
                thunk()
            except BaseException:
                pass
            if 'r' in box and isinstance(box['r'], Pregex) and box['r'] is not self:
                set_sh(box['r'], nested_shadow(spec, box['r']))
        if 'e' in box:
            raise box['e']
        return box.get('r')
    setattr(cls, name, w)


def wrap_ctor(cls, layer):
    orig = cls.__dict__.get('__init__')
    if orig is None:
        return
    name = cls.__name__

    @functools.wraps(orig)
    def w(self, *a, **k):
        boundary = depth[0] == 0
        box = {}

        def thunk():
            if layer == 'core':
                depth[0] += 1
            try:
                orig(self, *a, **k)
                box['r'] = self
                return self
            except BaseException as e:
                box['e'] = e
                raise
            finally:
                if layer == 'core':
                    depth[0] -= 1
        counts[(('boundary' if boundary else 'nested') if layer == 'core' else 'meta', name)] += 1
        if layer == 'meta':
            try:
                thunk()
            except BaseException:
                pass
            if 'r' in box:
                t = str(self)
                if id(self) not in STORE or STORE[id(self)][0] is not self:
                    set_sh(self, BYTEXT.get(t, S.Raw(t)))
        else:
            spec = lambda: ctor_spec(name, a, k)   # noqa: E731
            if boundary:
                ops = [(x, sh_of(x)) for x in a if isinstance(x, (str, Pregex))]
                sh = boundary_call(name, thunk, spec, ops)
                if 'r' in box:
                    set_sh(self, sh if sh is not None else S.Raw(str(self)))
            else:
                try:
                    thunk()
                except BaseException:
                    pass
                if 'r' in box:
                    set_sh(self, nested_shadow(spec, self))
        if 'e' in box:
            raise box['e']
    cls.__init__ = w


def wrap_pregex_init():
    orig = Pregex.__dict__['__init__']

    @functools.wraps(orig)
    def pinit(self, pattern='', escape=True):
        boundary = depth[0] == 0
        counts[('boundary' if boundary else 'nested', 'Pregex.__init__:' + ('lit' if escape else 'raw'))] += 1
        if boundary and escape and type(self) is Pregex:
            box = {}

            def thunk():
                depth[0] += 1
                try:
                    orig(self, pattern, escape)
                    box['r'] = self
                    return self
                except BaseException as e:
                    box['e'] = e
                    raise
                finally:
                    depth[0] -= 1

            def spec():
                if not isinstance(pattern, str):
                    raise S.Expect(S.T_TYPE)
                return S.Lit(pattern)
            sh = boundary_call('Pregex', thunk, spec, [(pattern, S.Lit(pattern) if isinstance(pattern, str) else pattern)])
            if 'r' in box:
                set_sh(self, sh if sh is not None else S.Raw(str(self)))
            if 'e' in box:
                raise box['e']
            return
        depth[0] += 1
        try:
            orig(self, pattern, escape)
        finally:
            depth[0] -= 1
        t = str(self)
        if escape:
            set_sh(self, S.Lit(pattern) if isinstance(pattern, str) else S.Raw(t))
        else:
            sh = BYTEXT.get(t)
            if sh is not None:
                counts[('adopted', '')] += 1
                STORE[id(self)] = (self, sh)
            else:
                set_sh(self, S.Raw(t))
    Pregex.__init__ = pinit


def wrap_classes():
    """classes and tokens are trusted leaves here (their sets are C06/C07's business)"""
    base = CL.Any.__mro__[1]

    def leaf_shadow(obj):
        t = str(obj)
        iv = C.set_of_single(t)
        return S.Cls(iv) if iv else S.Raw(t)
    for opn in ['__or__', '__ror__', '__sub__', '__rsub__', '__invert__']:
        orig = base.__dict__[opn]

        def mk(orig, opn):
            @functools.wraps(orig)
            def w(self, *a):
                depth[0] += 1
                try:
                    r = orig(self, *a)
                finally:
                    depth[0] -= 1
                if isinstance(r, Pregex):
                    set_sh(r, leaf_shadow(r))
                counts[('class-op', opn)] += 1
                return r
            return w
        setattr(base, opn, mk(orig, opn))
    for cls in [base, CL.AnyWordChar, CL.AnyButWordChar] + [c for c in vars(CL).values()
                                                            if isinstance(c, type) and issubclass(c, base) and '__init__' in c.__dict__
                                                            and c not in (base, CL.AnyWordChar, CL.AnyButWordChar)]:
        oci = cls.__dict__['__init__']

        def mkc(oci):
            @functools.wraps(oci)
            def cinit(self, *a, **k):
                depth[0] += 1
                try:
                    oci(self, *a, **k)
                finally:
                    depth[0] -= 1
                set_sh(self, leaf_shadow(self))
            return cinit
        cls.__init__ = mkc(oci)
    tbase = TK.Backslash.__mro__[1]
    oti = tbase.__dict__['__init__']

    @functools.wraps(oti)
    def tinit(self, *a, **k):
        depth[0] += 1
        try:
            oti(self, *a, **k)
        finally:
            depth[0] -= 1
        t = str(self)
        set_sh(self, S.Lit(t[1:] if len(t) == 2 and t[0] == '\\' else t))
    tbase.__init__ = tinit


# ------------------------------------------------------------------ matching API under the wrappers
def _read(source, is_path):
    if is_path:
        with open(source, 'r', encoding='utf-8') as f:
            return f.read()
    return source


def wrap_api():
    from . import api as A

    def expected(name, c, t, a, k):
        ms = list(c.finditer(t))

        def g(kwname, i, default):
            return k.get(kwname, a[i] if len(a) > i else default)
        if name == 'has_match':
            return bool(ms)
        if name == 'is_exact_match':
            return bool(c.fullmatch(t))
        if name == 'get_matches':
            return [m.group(0) for m in ms]
        if name == 'get_matches_and_pos':
            return [(m.group(0), *m.span()) for m in ms]
        if name == 'get_captures':
            return A.exp_captures(ms, g('include_empty', 1, True))
        if name == 'get_captures_and_pos':
            return A.exp_captures_pos(ms, g('include_empty', 1, True), g('relative_to_match', 2, False))
        if name == 'get_named_captures':
            return A.exp_named(ms, g('include_empty', 1, True))
        if name == 'get_named_captures_and_pos':
            return A.exp_named_pos(ms, g('include_empty', 1, True), g('relative_to_match', 2, False))
        if name == 'split_by_match':
            return A._split_match(ms, t)
        if name == 'get_matches_with_context':
            nl, nr = g('n_left', 1, 5), g('n_right', 2, 5)
            return [t[max(m.start() - nl, 0):min(m.end() + nr, len(t))] for m in ms]
        if name == 'replace':
            repl, cnt = g('repl', 1, None), g('count', 2, 0)
            if '\\' in repl:
                return None
            return A.exp_replace(ms, t, repl, cnt)
        return None
    PROP = {'has_match': 'C11', 'is_exact_match': 'C11', 'get_matches': 'C11', 'get_matches_and_pos': 'C11', 'get_captures': 'C12',
            'get_captures_and_pos': 'C12', 'get_named_captures': 'C12', 'get_named_captures_and_pos': 'C12', 'split_by_match': 'C13',
            'replace': 'C13', 'get_matches_with_context': 'C14'}
    ISPATH_POS = {'has_match': 1, 'is_exact_match': 1, 'get_matches': 1, 'get_matches_and_pos': 1, 'get_captures': 2, 'get_captures_and_pos': 3,
                  'get_named_captures': 2, 'get_named_captures_and_pos': 3, 'split_by_match': 1, 'replace': 3, 'get_matches_with_context': 3}
    for name in PROP:
        orig = Pregex.__dict__[name]

        def mk(orig, name):
            @functools.wraps(orig)
            def w(self, *a, **k):
                outer = depth[0] == 0
                depth[0] += 1
                try:
                    r = orig(self, *a, **k)
                finally:
                    depth[0] -= 1
                if outer:
                    try:
                        is_path = k.get('is_path', a[ISPATH_POS[name]] if len(a) > ISPATH_POS[name] else False)
                        src = k.get('source', a[0] if a else None)
                        if isinstance(src, str):
                            t = _read(src, is_path)
                            c = re.compile(str(self), C.FL)
                            exp = expected(name, c, t, a, k)
                            counts[('api', name)] += 1
                            if exp is not None and exp != r:
                                api_viol.append(([PROP[name]], {'op': name, 'symptom': 'api:%s:value' % name, 'real': str(self),
                                                                'detail': '%s on %r -> %r, expected %r' % (name, t[:80], r, exp)}))
                    except re.error:
                        pass
                    except Exception as e:
                        counts[('api-monitor-skip', type(e).__name__)] += 1
                return r
            return w
        setattr(Pregex, name, mk(orig, name))


def install(api=True):
    if installed[0]:
        return
    installed[0] = True
    wrap_pregex_init()
    for name in ['concat', 'either', 'enclose', 'optional', 'indefinite', 'one_or_more', 'exactly', 'at_least', 'at_most',
                 'at_least_at_most', 'capture', 'group', 'match_at_start', 'match_at_end', 'match_at_line_start', 'match_at_line_end',
                 'followed_by', 'preceded_by', 'enclosed_by', 'not_followed_by', 'not_preceded_by', 'not_enclosed_by',
                 '__add__', '__radd__', '__mul__', '__rmul__']:
        if name in Pregex.__dict__:
            wrap_method(Pregex, name)
        else:
            counts[('missing-method', name)] += 1
    for mod in (OP, QU, GR, AS):
        for n, c in list(vars(mod).items()):
            if isinstance(c, type) and issubclass(c, Pregex) and c.__module__ == mod.__name__ and not n.startswith('_'):
                wrap_ctor(c, 'core')
    for n, c in list(vars(ME).items()):
        if isinstance(c, type) and issubclass(c, Pregex) and c.__module__ == ME.__name__ and not n.startswith('_'):
            wrap_ctor(c, 'meta')
    wrap_classes()
    if api:
        wrap_api()


def summary():
    b = sum(v for (k, _), v in counts.items() if k == 'boundary')
    n = sum(v for (k, _), v in counts.items() if k == 'nested')
    return {'boundary_events': b, 'nested_events': n, 'meta_ctor_events': sum(v for (k, _), v in counts.items() if k == 'meta'),
            'api_calls_checked': sum(v for (k, _), v in counts.items() if k == 'api'),
            'adopted': counts.get(('adopted', ''), 0), 'verdicts': dict(W.stats),
            'violations': violations[:200] + api_viol[:50], 'n_violations': len(violations) + len(api_viol),
            'monitor_errors': W.monitor_errors[:5], 'missing_methods': [m for (k, m), v in counts.items() if k == 'missing-method'],
            'by_op': {k + ':' + m: v for (k, m), v in counts.items()}}
