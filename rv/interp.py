"""Program interpreter: evaluates a JSON program node by node through pregex's public API,
computes the shadow of every result with the transfer functions, and hands every call
(event) to the oracle.  (DESIGN.md Appendix C, stage 1.)

program node = dict: {"o": op, "x": [children], ...params, "f": spelling}
spellings "f": "c" class form, "m" chained-method form, "o" operator form.
"""
import collections
import random
import re
import signal
from . import load_pregex, canon as C, shadow as S, judge as J

pregex = load_pregex()
from pregex.core.pre import Pregex  # noqa: E402
from pregex.core import classes as CL, tokens as TK, operators as OP, quantifiers as QU  # noqa: E402
from pregex.core import groups as GR, assertions as AS, exceptions as EX  # noqa: E402

LIBEXC = tuple(v for v in vars(EX).values() if isinstance(v, type) and issubclass(v, Exception))

NAMED_SETS = {
    'AnyLetter': ((65, 90), (97, 122)),
    'AnyLowercaseLetter': ((97, 122),),
    'AnyUppercaseLetter': ((65, 90),),
    'AnyDigit': ((48, 57),),
    'AnyWordChar': ((48, 57), (65, 90), (95, 95), (97, 122)),
    'AnyPunctuation': ((33, 47), (58, 64), (91, 96), (123, 126)),
    'AnyWhitespace': ((9, 13), (32, 32)),
    'Any': ((0, C.MAXCP),),
}
for _n in list(NAMED_SETS):
    if _n != 'Any':
        NAMED_SETS['AnyBut' + _n[3:]] = C.compl(NAMED_SETS[_n])

TOKENS = {'Backslash': '\\', 'Bullet': '•', 'CarriageReturn': '\r', 'Copyright': '©',
          'Division': '÷', 'Dollar': '$', 'Euro': '€', 'FormFeed': '\x0c',
          'Infinity': '∞', 'Multiplication': '×', 'Newline': '\n', 'Pound': '£',
          'Registered': '®', 'Rupee': '₹', 'Space': ' ', 'Tab': '\t',
          'Trademark': '™', 'VerticalTab': '\x0b', 'WhiteBullet': '◦', 'Yen': '¥'}

QUANT_OPS = {'q', 'opt', 'star', 'plus', 'ex', 'al', 'am', 'mul', 'rmul'}
LOOK = {'fol': ('FollowedBy', 'followed_by'), 'nfol': ('NotFollowedBy', 'not_followed_by'),
        'pre': ('PrecededBy', 'preceded_by'), 'npre': ('NotPrecededBy', 'not_preceded_by'),
        'lenc': ('EnclosedBy', 'enclosed_by'), 'nlenc': ('NotEnclosedBy', 'not_enclosed_by')}
LOOKKIND = {'fol': 'fol', 'nfol': 'nfol', 'pre': 'pre', 'npre': 'npre', 'lenc': 'enc', 'nlenc': 'nenc'}
ANCH = {'mas': ('MatchAtStart', 'match_at_start'), 'mae': ('MatchAtEnd', 'match_at_end'),
        'mals': ('MatchAtLineStart', 'match_at_line_start'), 'male': ('MatchAtLineEnd', 'match_at_line_end')}


class Abort(Exception):
    """the program cannot be evaluated further (an exception was the outcome of a call)"""

    def __init__(self, why):
        self.why = why


META_LEAVES = {
    'Integer': lambda ME: ME.Integer(), 'Integer5_120': lambda ME: ME.Integer(5, 120), 'NegInt': lambda ME: ME.NegativeInteger(0, 99),
    'Decimal': lambda ME: ME.Decimal(0, 9, 1, 2), 'Date': lambda ME: ME.Date('dd/mm/yyyy'), 'Date2': lambda ME: ME.Date(['d/m/yy', 'yyyy-mm-dd']),
    'IPv4': lambda ME: ME.IPv4(), 'Word': lambda ME: ME.Word(2, 3), 'WordContains': lambda ME: ME.WordContains(['a', 'b|c']),
    'Numeral2': lambda ME: ME.Numeral(2, 1, 1), 'IntegerExt': lambda ME: ME.Integer(3, 7, is_extensible=True), 'Email': lambda ME: ME.Email(),
    'HttpUrl': lambda ME: ME.HttpUrl(),
}


def _foreign(sh):
    # a raw operand that is one special group the library can only wrap: its grouping is judged although it is raw
    return ['foreign-group'] if isinstance(sh, S.N) and sh.k == 'Raw' and S.foreign_group(sh.text) else []


class CaseTimeout(Exception):
    pass


def _alarm(signum, frame):
    raise CaseTimeout()


class Event:
    __slots__ = ('op', 'form', 'operands', 'expected', 'observed', 'verdict', 'symptom',
                 'detail', 'real', 'ref', 'text', 'flags')

    def json(self):
        d = {}
        for k in self.__slots__:
            v = getattr(self, k, None)
            if v is not None and v != () and v != []:
                d[k] = v if not isinstance(v, (set, frozenset)) else sorted(v)
        return d


def snapshot(obj):
    if not isinstance(obj, Pregex):
        return None
    snap = [str(obj), obj.get_pattern(), obj._get_type(), obj._is_repeatable(), type(obj)]
    gv = getattr(obj, '_get_verbose_pattern', None)
    if gv is not None:
        try:
            snap.append(gv())
        except Exception:
            snap.append('<verbose failed>')
    return tuple(snap)


class Interp:
    def __init__(self, seed=0, form='c', judge_all=True, nprobes=12, case_timeout=5):
        self.rnd = random.Random(seed)
        self.form = form
        self.judge_all = judge_all
        self.nprobes = nprobes
        self.case_timeout = case_timeout
        self.events = []          # events of the current program
        self.stats = collections.Counter()
        self.by_op = collections.Counter()
        self.distinct = set()
        self.monitor_errors = []
        self.tainted = False

    # ------------------------------------------------------------------ the call primitive
    def call(self, op, form, real_thunk, shadow_thunk, operands=(), flags=()):
        """one public API call: expectation from the transfer function, outcome from the real code"""
        ev = Event()
        ev.op, ev.form, ev.flags = op, form, set(flags)
        ev.operands = [s.shape() if isinstance(s, S.N) else repr(s) for _, s in operands]
        ev.expected = ev.observed = ev.verdict = ev.symptom = ev.detail = ev.real = ev.ref = ev.text = None
        self.events.append(ev)
        self.by_op[op + '/' + form] += 1
        if any(isinstance(s, S.N) and s.k == 'Empty' for _, s in operands):
            ev.flags.add('empty-operand')
        if any(isinstance(r, str) for r, _ in operands):
            ev.flags.add('str-operand')
        self.distinct.add((op, form, tuple(ev.operands)))
        # expectation
        also = None
        try:
            exp = shadow_thunk()
            expk = 'shadow'
            if exp.k == 'Empty':
                ev.flags.add('empty-expected')
        except S.Expect as e:
            exp, expk, also = e.names, 'exc', e.also
        except S.Unspec as e:
            exp, expk = str(e), 'unspec'
        ev.expected = expk if expk != 'exc' else 'exc:' + '|'.join(exp)
        # snapshots of operands (C20 operand preservation)
        snaps = [(r, snapshot(r)) for r, _ in operands]
        # the real call
        try:
            real = real_thunk()
            rk = 'ok'
        except LIBEXC as e:
            real, rk = e, 'libexc'
        except CaseTimeout:
            raise
        except RecursionError:
            real, rk = None, 'crash:RecursionError'
        except Exception as e:
            real, rk = e, 'crash:' + type(e).__name__
        for r, snap in snaps:
            if snap is not None and snapshot(r) != snap:
                self.violation(ev, 'mutated-operand', 'operand %r changed from %r to %r' % (r, snap[:4], snapshot(r)[:4]))
                raise Abort('violation')
        if rk.startswith('crash'):
            ev.observed = rk
            if expk == 'unspec':
                ev.verdict = 'unspec'
                self.stats['unspec'] += 1
                # even an unspecified call must not die with an unrelated error
            self.violation(ev, rk, None if real is None else str(real)[:200])
            raise Abort('violation')
        if rk == 'libexc':
            name = type(real).__name__
            ev.observed = 'exc:' + name
            if expk == 'unspec':
                ev.verdict = 'unspec'
                self.stats['unspec'] += 1
                raise Abort('unspec-exc')
            if expk == 'exc':
                if name in exp:
                    ev.verdict = 'exc-ok'
                    self.stats['exc-ok'] += 1
                    raise Abort('expected-exc')
                self.violation(ev, 'wrong-exception:' + name, 'expected ' + '|'.join(exp))
                raise Abort('violation')
            if self.tainted:
                ev.verdict = 'tainted'
                self.stats['tainted'] += 1
                raise Abort('tainted')
            self.violation(ev, 'unexpected-exception:' + name, str(real)[:200])
            raise Abort('violation')
        # a value came back
        if not isinstance(real, Pregex):
            ev.observed = 'value:' + type(real).__name__
            self.violation(ev, 'crash:not-a-pregex', repr(real)[:100])
            raise Abort('violation')
        text = str(real)
        ev.observed = 'pattern'
        ev.real = text
        if expk == 'unspec':
            ev.verdict = 'unspec'
            self.stats['unspec'] += 1
            # unspecified meaning, but C03 still applies: it must compile and export
            sh = S.Raw(text)
            self.check_c03_only(ev, real, text)
            return real, sh
        if expk == 'exc':
            if also is None:
                pr = C.parse(text)
                err = pr.error or C.compiles(text)[1]
                if err and not ('group' in err and re.search('reference|unknown|redefinition|cannot refer', err)):
                    # accepted although it had to be refused, *and* what came back does not even compile
                    # (dangling / duplicated group references of the program itself do not count)
                    ev.flags.add('result-uncompilable')
                self.violation(ev, 'missing-exception:' + '|'.join(exp), 'returned %r' % text)
                return real, S.Raw(text)
            exp = also
        if self.tainted:
            # an operand already deviates from its shadow (reported at the event where it happened): what is built on
            # top of it is not compared semantically any more, but MUST-raise rules are still judged against the shadow
            ev.verdict = 'tainted'
            self.stats['tainted'] += 1
            return real, exp
        v = J.judge(text, exp, self.rnd, export_text=real.get_pattern(), nprobes=self.nprobes)
        ev.ref = v.ref
        if v.kind == 'viol':
            ev.text = v.text
            self.violation(ev, v.symptom, v.detail)
            if v.symptom.startswith(('semantic', 'groups')):
                self.tainted = True
                return real, exp
            return real, S.Raw(text)
        ev.verdict = v.kind
        self.stats[v.kind] += 1
        if v.kind == 'unspec':
            return real, S.Raw(text)
        return real, exp

    def check_c03_only(self, ev, real, text):
        pr = C.parse(text)
        if pr.error and 'group' in pr.error and re.search('reference|unknown|redefinition|cannot refer', pr.error):
            # dangling / duplicated / engine-restricted group references of the *program* (user's error, C03 excepts them)
            return
        if pr.error:
            self.violation(ev, 'uncompilable:' + pr.error, 'unspecified call returned %r' % text)
            return
        v = J.check_export('', text, real.get_pattern(), pr)
        if v is not None:
            self.violation(ev, v.symptom, v.detail)

    def violation(self, ev, symptom, detail):
        ev.verdict = 'viol'
        ev.symptom = symptom
        ev.detail = detail
        self.stats['viol'] += 1

    # ------------------------------------------------------------------ running programs
    def run_program(self, prog, form=None):
        """returns (status, events, real_text or None)."""
        self.events = []
        self.tainted = False
        self.last_real = None
        node = prog
        if 'prog' in prog:
            node = prog['prog']
            form = form or prog.get('form')
        if form:
            self.form = form
        old = signal.signal(signal.SIGALRM, _alarm)
        signal.alarm(self.case_timeout)
        try:
            real, sh = self.ev(node)
            if isinstance(real, str):
                real, sh = self.wrap(real, sh)
            status = 'done'
            text = str(real)
            self.last_real = real
        except Abort as a:
            status, text = a.why, None
        except CaseTimeout:
            status, text = 'timeout', None
            self.stats['timeout'] += 1
        except S.MonitorError as e:
            status, text = 'monitor-error', None
            self.monitor_errors.append(str(e)[:300])
        finally:
            signal.alarm(0)
            signal.signal(signal.SIGALRM, old)
        return status, self.events, text

    def wrap(self, s, sh):
        """Pregex(s) for a str leaf that has to act as receiver / stand alone"""
        return self.call('Pregex', 'c', lambda: Pregex(s), lambda: S.Lit(s), [(s, sh)])

    def P(self, r, s):
        if isinstance(r, str):
            return self.wrap(r, s)
        return r, s

    def fold(self, op, form, subs, real_step, shadow_step):
        (ar, as_) = self.P(*subs[0])
        for (br, bs) in subs[1:]:
            ar, as_ = self.call(op, form, (lambda ar=ar, br=br: real_step(ar, br)),
                                (lambda as_=as_, bs=bs: shadow_step(as_, bs)), [(ar, as_), (br, bs)])
        return ar, as_

    def ev(self, t):
        o = t['o']
        f = t.get('f', self.form)
        m = getattr(self, 'op_' + o, None)
        if m is None:
            raise KeyError(o)
        return m(t, f)

    # ------------------------------------------------------------------ leaves
    def op_lit(self, t, f):
        s = t['s']
        return s, S.Lit(s)           # a bare str operand: wrapped by whichever API receives it

    def op_plit(self, t, f):
        s = t['s']
        return self.call('Pregex', 'c', lambda: Pregex(s), lambda: S.Lit(s), [(s, S.Lit(s))])

    def op_badarg(self, t, f):
        # a documented-invalid operand value (None, 1.5, bytes, list ...)
        v = {'none': None, 'float': 1.5, 'bytes': b'x', 'list': [], 'int': 7, 'bool': True}[t['v']]
        return v, v

    def op_pregexbad(self, t, f):
        v = {'none': None, 'float': 1.5, 'bytes': b'x', 'list': [], 'int': 7, 'bool': True}[t['v']]
        esc = t.get('escape', True)

        def sh():
            raise S.Expect(S.T_TYPE)
        return self.call('Pregex', 'c', lambda: Pregex(v, escape=esc), sh, [(v, v)])

    def op_cls(self, t, f):
        n = t['n']
        kw = dict(t.get('kw', {}))
        iv = NAMED_SETS[n]
        return self.call(n, 'c', lambda: getattr(CL, n)(**kw), lambda: S.Cls(iv, n), [])

    def op_from(self, t, f):
        cs = list(t['cs'])
        neg = t.get('neg', False)
        iv = C.of_chars(cs)
        if neg:
            iv = C.compl(iv)
        cls = CL.AnyButFrom if neg else CL.AnyFrom
        return self.call(cls.__name__, 'c', lambda: cls(*cs), lambda: S.Cls(iv), [(c, S.Lit(c)) for c in cs])

    def op_btw(self, t, f):
        a, b = t['a'], t['b']
        neg = t.get('neg', False)
        iv = ((ord(a), ord(b)),)
        if neg:
            iv = C.compl(iv)
        cls = CL.AnyButBetween if neg else CL.AnyBetween
        return self.call(cls.__name__, 'c', lambda: cls(a, b), lambda: S.Cls(iv), [(a, S.Lit(a)), (b, S.Lit(b))])

    def op_tok(self, t, f):
        n = t['n']
        return self.call(n, 'c', lambda: getattr(TK, n)(), lambda: S.Lit(TOKENS[n]), [])

    def op_empty(self, t, f):
        k = t.get('k', 0)
        makers = [
            ('Pregex', lambda: Pregex()),
            ('Pregex', lambda: Pregex('')),
            ('Concat', lambda: OP.Concat()),
            ('Either', lambda: OP.Either()),
            ('Exactly', lambda: QU.Exactly('a', 0)),
            ('mul', lambda: Pregex('a') * 0),
            ('AtMost', lambda: QU.AtMost('ab', 0)),
            ('Concat', lambda: OP.Concat(Pregex(), Pregex(''))),
            ('Optional', lambda: QU.Optional(Pregex())),
            ('Group', lambda: GR.Group('')),
            ('Capture', lambda: GR.Capture(Pregex(), 'zz')),
            ('Pregex', lambda: Pregex('', escape=False)),
        ]
        name, mk = makers[k % len(makers)]
        return self.call(name, 'c', mk, lambda: S.EMPTY, [], flags=['empty-spelling'])

    def op_wb(self, t, f):
        return self.call('WordBoundary', 'c', AS.WordBoundary, lambda: S.N('Bound', t='\\b'), [])

    def op_nwb(self, t, f):
        return self.call('NonWordBoundary', 'c', AS.NonWordBoundary, lambda: S.N('Bound', t='\\B'), [])

    def op_raw(self, t, f):
        s = t['s']
        return self.call('Pregex', 'c', lambda: Pregex(s, escape=False), lambda: S.Raw(s), [], flags=['raw'])

    def op_meta(self, t, f):
        # an operand produced by the meta layer: a trusted, opaque leaf (what it matches is C15-C19's business)
        from pregex.meta import essentials as ME
        mk = META_LEAVES[t['n']]
        try:
            real = mk(ME)
        except Exception as e:
            raise S.MonitorError('meta leaf %s failed: %r' % (t['n'], e))
        return self.P(real, S.Lib(str(real)))

    def op_bref(self, t, f):
        r = t['r']
        return self.call('Backreference', 'c', lambda: GR.Backreference(r), lambda: S.backref(r), [], flags=['group'])

    # ------------------------------------------------------------------ operators
    def subs(self, t):
        return [self.ev(c) for c in t['x']]

    def op_cat(self, t, f):
        subs = self.subs(t)
        if f == 'c':
            return self.call('Concat', f, lambda: OP.Concat(*[r for r, _ in subs]),
                             lambda: self._nary(subs, S.cat), subs)
        if f == 'm':
            if t.get('left'):
                return self.fold('concat', f, subs, lambda a, b: a.concat(b, on_right=False),
                                 lambda a, b: S.cat([S.operand(b), a]))
            return self.fold('concat', f, subs, lambda a, b: a.concat(b), lambda a, b: S.cat([a, S.operand(b)]))
        # operator form: left operand stays a str when the right one is a Pregex (exercises __radd__)
        if not subs:
            return self.call('Concat', 'c', lambda: OP.Concat(), lambda: S.EMPTY, [])
        ar, as_ = subs[0]
        if len(subs) == 1:
            return self.P(ar, as_)
        for (br, bs) in subs[1:]:
            if isinstance(ar, str) and not isinstance(br, Pregex):
                ar, as_ = self.wrap(ar, as_)
            opn = 'radd' if isinstance(ar, str) else 'add'
            ar, as_ = self.call(opn, 'o', (lambda ar=ar, br=br: ar + br),
                                (lambda as_=as_, bs=bs: S.cat([S.operand(as_), S.operand(bs)])), [(ar, as_), (br, bs)])
        return ar, as_

    def _nary(self, subs, fn):
        xs = [S.operand(s) for _, s in subs]
        if len(xs) < 2:
            # docs: "NotEnoughArgumentsException: Less than two arguments" *and* "if a single argument
            # is provided, it is simply returned" - both documented outcomes are accepted
            raise S.Expect(S.T_ARGS, also=fn(xs))
        return fn(xs)

    def op_alt(self, t, f):
        subs = self.subs(t)
        if f == 'm' and subs:
            if t.get('left'):
                return self.fold('either', 'm', subs, lambda a, b: a.either(b, on_right=False),
                                 lambda a, b: self._either(a, S.operand(b), False))
            return self.fold('either', 'm', subs, lambda a, b: a.either(b), lambda a, b: self._either(a, S.operand(b), True))
        return self.call('Either', 'c', lambda: OP.Either(*[r for r, _ in subs]),
                         lambda: self._nary(subs, S.alt), subs)

    @staticmethod
    def _either(recv, arg, on_right):
        # x.either(empty) is x (documented); an empty *receiver* gives '|x' / 'x|' in the pinned
        # tests while the docs say empty alternatives vanish: unspecified
        if recv.k == 'Empty' and arg.k != 'Empty':
            raise S.Unspec('either-on-empty-receiver')
        return S.alt([recv, arg] if on_right else [arg, recv]) if arg.k != 'Empty' else recv

    def op_enc(self, t, f):
        subs = self.subs(t)

        def sh(xs):
            x = xs[0]
            for e in xs[1:]:
                x = S.enclose(x, e)
            return x
        if f == 'm':
            return self.fold('enclose', 'm', subs, lambda a, b: a.enclose(b), lambda a, b: S.enclose(a, S.operand(b)))
        return self.call('Enclose', 'c', lambda: OP.Enclose(*[r for r, _ in subs]), lambda: self._nary(subs, sh), subs)

    # ------------------------------------------------------------------ quantifiers
    def _q(self, name, f, x, cls_thunk, meth_thunk, shadow_thunk, op_thunk=None):
        xr, xs = x
        if f == 'm' or (f == 'o' and op_thunk is None):
            pr, ps = self.P(xr, xs)
            return self.call(name, 'm', lambda: meth_thunk(pr), lambda: shadow_thunk(S.operand(ps)), [(pr, ps)],
                             flags=['quant'])
        if f == 'o':
            pr, ps = self.P(xr, xs)
            return self.call(name, 'o', lambda: op_thunk(pr), lambda: shadow_thunk(S.operand(ps)), [(pr, ps)],
                             flags=['quant'])
        return self.call(name, 'c', lambda: cls_thunk(xr), lambda: shadow_thunk(S.operand(xs)), [(xr, xs)],
                         flags=['quant'])

    def op_q(self, t, f):
        n, m, gr = t['n'], t['m'], t.get('g', True)
        return self._q('AtLeastAtMost', f, self.ev(t['x'][0]),
                       lambda r: QU.AtLeastAtMost(r, n, m, gr), lambda p: p.at_least_at_most(n, m, gr),
                       lambda s: S.quant(s, n, m, gr, S.check_bounds(n, m, True, True)))

    def op_opt(self, t, f):
        gr = t.get('g', True)
        return self._q('Optional', f, self.ev(t['x'][0]), lambda r: QU.Optional(r, gr), lambda p: p.optional(gr),
                       lambda s: S.quant(s, 0, 1, gr))

    def op_star(self, t, f):
        gr = t.get('g', True)
        return self._q('Indefinite', f, self.ev(t['x'][0]), lambda r: QU.Indefinite(r, gr), lambda p: p.indefinite(gr),
                       lambda s: S.quant(s, 0, None, gr))

    def op_plus(self, t, f):
        gr = t.get('g', True)
        return self._q('OneOrMore', f, self.ev(t['x'][0]), lambda r: QU.OneOrMore(r, gr), lambda p: p.one_or_more(gr),
                       lambda s: S.quant(s, 1, None, gr))

    def op_ex(self, t, f):
        n = t['n']
        return self._q('Exactly', f, self.ev(t['x'][0]), lambda r: QU.Exactly(r, n), lambda p: p.exactly(n),
                       lambda s: S.quant(s, n, n, True, S.check_bounds(n, None, False, False)),
                       op_thunk=(lambda p: p * n) if not t.get('rmul') else (lambda p: n * p))

    def op_al(self, t, f):
        n, gr = t['n'], t.get('g', True)
        return self._q('AtLeast', f, self.ev(t['x'][0]), lambda r: QU.AtLeast(r, n, gr), lambda p: p.at_least(n, gr),
                       lambda s: S.quant(s, n, None, gr, S.check_bounds(n, None, False, False)))

    def op_am(self, t, f):
        n, gr = t['n'], t.get('g', True)

        def sh(s):
            if n is None:
                return S.quant(s, 0, None, gr)
            return S.quant(s, 0, n, gr, S.check_bounds(0, n, True, False))
        return self._q('AtMost', f, self.ev(t['x'][0]), lambda r: QU.AtMost(r, n, gr), lambda p: p.at_most(n, gr), sh)

    def op_qseq(self, t, f):
        """the SAME operand object goes through a sequence of quantifier calls (valid and invalid bounds);
        every call is judged; the value of the node is the last successful result"""
        xr, xs = self.ev(t['x'][0])
        pr, ps = self.P(xr, xs)
        last = (pr, ps)
        for call in t['calls']:
            kind, n = call[0], call[1]
            try:
                if kind == 'ex':
                    form = call[2] if len(call) > 2 else 'm'
                    thunk = {'m': (lambda: pr.exactly(n)), 'c': (lambda: QU.Exactly(pr, n)), 'o': (lambda: pr * n), 'r': (lambda: n * pr)}[form]
                    last = self.call('Exactly', form, thunk, lambda: S.quant(S.operand(ps), n, n, True, S.check_bounds(n, None, False, False)),
                                     [(pr, ps)], flags=['quant'])
                elif kind == 'q':
                    m, g = call[2], (call[3] if len(call) > 3 else True)
                    form = call[4] if len(call) > 4 else 'm'
                    thunk = (lambda: pr.at_least_at_most(n, m, g)) if form == 'm' else (lambda: QU.AtLeastAtMost(pr, n, m, g))
                    last = self.call('AtLeastAtMost', form, thunk, lambda: S.quant(S.operand(ps), n, m, g, S.check_bounds(n, m, True, True)),
                                     [(pr, ps)], flags=['quant'])
                elif kind == 'al':
                    g = call[2] if len(call) > 2 else True
                    last = self.call('AtLeast', 'm', lambda: pr.at_least(n, g),
                                     lambda: S.quant(S.operand(ps), n, None, g, S.check_bounds(n, None, False, False)), [(pr, ps)], flags=['quant'])
                elif kind == 'am':
                    g = call[2] if len(call) > 2 else True
                    last = self.call('AtMost', 'm', lambda: pr.at_most(n, g),
                                     lambda: S.quant(S.operand(ps), 0, n, g, S.check_bounds(0, n, True, False)) if n is not None
                                     else S.quant(S.operand(ps), 0, None, g), [(pr, ps)], flags=['quant'])
            except Abort as a:
                if a.why == 'violation':
                    raise
        return last

    # ------------------------------------------------------------------ groups
    def op_cap(self, t, f):
        xr, xs = self.ev(t['x'][0])
        name = t.get('name')
        if f == 'm':
            pr, ps = self.P(xr, xs)
            return self.call('capture', 'm', lambda: pr.capture(name), lambda: S.capture(S.operand(ps), name), [(pr, ps)],
                             flags=['group'] + _foreign(ps))
        return self.call('Capture', 'c', lambda: GR.Capture(xr, name), lambda: S.capture(S.operand(xs), name), [(xr, xs)],
                         flags=['group'] + _foreign(xs))

    def op_grp(self, t, f):
        xr, xs = self.ev(t['x'][0])
        ci = t.get('ci', False)
        if f == 'm':
            pr, ps = self.P(xr, xs)
            return self.call('group', 'm', lambda: pr.group(ci), lambda: S.group(S.operand(ps), ci), [(pr, ps)],
                             flags=['group'] + _foreign(ps))
        return self.call('Group', 'c', lambda: GR.Group(xr, ci), lambda: S.group(S.operand(xs), ci), [(xr, xs)],
                         flags=['group'] + _foreign(xs))

    def op_cond(self, t, f):
        name = t['name']
        ar, as_ = self.ev(t['x'][0])
        if len(t['x']) > 1 and not (t['x'][1].get('o') == 'badarg' and t['x'][1].get('v') == 'none'):
            br, bs = self.ev(t['x'][1])
            ops = [(ar, as_), (br, bs)]
            return self.call('Conditional', 'c', lambda: GR.Conditional(name, ar, br),
                             lambda: S.conditional(name, S.operand(as_), S.operand(bs)), ops, flags=['group'])
        return self.call('Conditional', 'c', lambda: GR.Conditional(name, ar),
                         lambda: S.conditional(name, S.operand(as_), None), [(ar, as_)], flags=['group'])

    # ------------------------------------------------------------------ assertions
    def _look(self, o, t, f):
        cname, mname = LOOK[o]
        kind = LOOKKIND[o]
        xr, xs = self.ev(t['x'][0])
        assertions = [self.ev(c) for c in t['x'][1:]]
        fl = ['look', 'lookbehind'] if kind in ('pre', 'npre', 'enc', 'nenc') else ['look']
        if f == 'm' and assertions:
            pr, ps = self.P(xr, xs)
            for (ar, as_) in assertions:
                pr, ps = self.call(mname, 'm', (lambda pr=pr, ar=ar: getattr(pr, mname)(ar)),
                                   (lambda ps=ps, as_=as_: S.look(kind, S.operand(ps), S.operand(as_))),
                                   [(pr, ps), (ar, as_)], flags=fl)
            return pr, ps
        return self.call(cname, 'c', lambda: getattr(AS, cname)(xr, *[r for r, _ in assertions]),
                         lambda: S.lookaround(kind, S.operand(xs), [S.operand(s) for _, s in assertions]),
                         [(xr, xs)] + assertions, flags=fl)

    def _anch(self, o, t, f):
        cname, mname = ANCH[o]
        xr, xs = self.ev(t['x'][0])
        if f == 'm':
            pr, ps = self.P(xr, xs)
            return self.call(mname, 'm', lambda: getattr(pr, mname)(), lambda: S.anchor(o, S.operand(ps)), [(pr, ps)],
                             flags=['anchor'])
        return self.call(cname, 'c', lambda: getattr(AS, cname)(xr), lambda: S.anchor(o, S.operand(xs)), [(xr, xs)],
                         flags=['anchor'])


for _o in LOOK:
    setattr(Interp, 'op_' + _o, (lambda o: lambda self, t, f: self._look(o, t, f))(_o))
for _o in ANCH:
    setattr(Interp, 'op_' + _o, (lambda o: lambda self, t, f: self._anch(o, t, f))(_o))


def show(t):
    """compact human-readable rendering of a program"""
    o = t['o']
    if o in ('lit', 'plit', 'raw'):
        return ('%r' if o == 'lit' else 'Pregex(%r)' if o == 'plit' else 'Raw(%r)') % t['s']
    if o == 'cls':
        return t['n'] + '()'
    if o == 'from':
        return ('AnyButFrom' if t.get('neg') else 'AnyFrom') + repr(tuple(t['cs']))
    if o == 'btw':
        return ('AnyButBetween' if t.get('neg') else 'AnyBetween') + repr((t['a'], t['b']))
    if o == 'tok':
        return t['n'] + '()'
    if o == 'empty':
        return 'Empty#%d' % t.get('k', 0)
    if o in ('wb', 'nwb'):
        return o
    if o == 'bref':
        return 'Backreference(%r)' % (t['r'],)
    if o == 'badarg':
        return '<%s>' % t['v']
    params = ','.join('%s=%r' % (k, v) for k, v in t.items() if k not in ('o', 'x', 'f'))
    return '%s%s(%s%s)' % (o, '/' + t['f'] if 'f' in t else '', ', '.join(show(c) for c in t.get('x', [])),
                           (';' + params) if params else '')
