"""Known findings (DESIGN.md section 3.9): committed file, never written at run time.

{"open":  [{"id", "property", "mechanism", "what", "match": {"symptom": prefix, "features": [required tags]},
            "witness": case}],
 "fixed": ["fixed: property=<id> <commit> <what failed>", ...]}

A violation is covered by an open entry only if its symptom starts with the entry's symptom
prefix and its (shrunk) witness has every required feature tag.  `fixed` lines suppress nothing.
"""
import json
import os
from . import VERIF_DIR

PATH = os.path.join(VERIF_DIR, 'known_findings.json')


def load():
    if not os.path.exists(PATH):
        return {'open': [], 'fixed': []}
    return json.load(open(PATH))


def match(kf, prop, symptom, feats):
    feats = set(feats or [])
    if 'unclassified' in feats:
        return None
    for e in kf.get('open', []):
        if e['property'] != prop:
            continue
        m = e.get('match', {})
        if not (symptom or '').startswith(m.get('symptom', '\0')):
            continue
        if set(m.get('features', [])) <= feats:
            return e
    return None


def witness_fails(mod, entry, check, seed):
    try:
        vs = mod.replay(entry['witness'], check, seed)
    except Exception:
        return True
    return bool(vs)
