"""Observation channels O2-O4: canonical parse trees, interval algebra, full-Unicode class scan.

Trusted base: CPython's own regex parser (re._parser) and engine.
Two patterns with equal canonical trees are the same program for the regex engine,
hence equivalent on every text (modulo the code points only \\d \\s \\w add, which the
properties leave unspecified and which the canonical form maps to their ASCII bases).
"""
import re
import re._parser as sp
import re._constants as sc

FL = re.M | re.S
MAXCP = 0x10FFFF
MAXREPEAT = int(sc.MAXREPEAT)

ASCII = {
    'CATEGORY_DIGIT': ((48, 57),),
    'CATEGORY_SPACE': ((9, 13), (32, 32)),
    'CATEGORY_WORD': ((48, 57), (65, 90), (95, 95), (97, 122)),
}


# ----------------------------------------------------------------- interval algebra
def norm(iv):
    """sorted, disjoint, non-adjacent closed intervals"""
    out = []
    for a, b in sorted(iv):
        if a > b:
            continue
        if out and a <= out[-1][1] + 1:
            if b > out[-1][1]:
                out[-1][1] = b
        else:
            out.append([a, b])
    return tuple((a, b) for a, b in out)


def compl(iv):
    out = []
    p = 0
    for a, b in norm(iv):
        if a > p:
            out.append((p, a - 1))
        p = b + 1
    if p <= MAXCP:
        out.append((p, MAXCP))
    return tuple(out)


def union(a, b):
    return norm(list(a) + list(b))


def inter(a, b):
    out = []
    a, b = norm(a), norm(b)
    i = j = 0
    while i < len(a) and j < len(b):
        lo, hi = max(a[i][0], b[j][0]), min(a[i][1], b[j][1])
        if lo <= hi:
            out.append((lo, hi))
        if a[i][1] < b[j][1]:
            i += 1
        else:
            j += 1
    return tuple(out)


def diff(a, b):
    return inter(a, compl(b))


def size(iv):
    return sum(b - a + 1 for a, b in iv)


def contains(iv, cp):
    for a, b in iv:
        if a <= cp <= b:
            return True
    return False


def of_chars(chars):
    return norm([(ord(c), ord(c)) for c in chars])


def brute_set(iv, cap=200):
    s = set()
    for a, b in iv:
        s.update(range(a, min(b, cap) + 1))
    return s


def show(iv, limit=6):
    def c(x):
        return 'U+%04X' % x
    parts = [c(a) if a == b else c(a) + '-' + c(b) for a, b in iv[:limit]]
    if len(iv) > limit:
        parts.append('...(+%d)' % (len(iv) - limit))
    return '{' + ' '.join(parts) + '}'


# ----------------------------------------------------------------- canonical trees
def _canon_in(items):
    neg = False
    iv = []
    for op, av in items:
        if op is sc.NEGATE:
            neg = True
        elif op is sc.LITERAL:
            iv.append((av, av))
        elif op is sc.RANGE:
            iv.append((av[0], av[1]))
        elif op is sc.CATEGORY:
            n = str(av)
            if n.startswith('CATEGORY_NOT_'):
                iv += list(compl(ASCII['CATEGORY_' + n[13:]]))
            else:
                iv += list(ASCII[n])
        else:
            raise ValueError('unknown IN item %r' % (op,))
    s = norm(iv)
    return ('SET', compl(s) if neg else s)


def _branch(alts):
    """alts: list of canonical sequences (tuples). returns a canonical *sequence*."""
    # splice alternatives that are themselves a single BRANCH (alternation is associative)
    flat = []
    for a in alts:
        if len(a) == 1 and a[0][0] == 'BRANCH':
            flat.extend(a[0][1])
        else:
            flat.append(a)
    alts = flat
    # factor common prefix (the parser does the same, but only on what it sees ungrouped)
    prefix = []
    while all(len(a) > 0 for a in alts) and all(a[0] == alts[0][0] for a in alts) \
            and not _has_group(alts[0][0]):
        prefix.append(alts[0][0])
        alts = [a[1:] for a in alts]
    # merge runs of adjacent single-set alternatives into one set (x|y|ab == [xy]|ab)
    merged = []
    for a in alts:
        if len(a) == 1 and a[0][0] == 'SET' and merged and len(merged[-1]) == 1 \
                and merged[-1][0][0] == 'SET':
            merged[-1] = (('SET', union(merged[-1][0][1], a[0][1])),)
        else:
            merged.append(tuple(a))
    alts = merged
    if len(alts) == 1:
        return tuple(prefix) + tuple(alts[0])
    return tuple(prefix) + (('BRANCH', tuple(alts)),)


def _has_group(item):
    """does a canonical item contain a capturing group / reference (never factor those)"""
    k = item[0]
    if k == 'SUB':
        return item[1] is not None or any(_has_group(i) for i in item[4])
    if k in ('REF', 'COND'):
        return True
    if k == 'BRANCH':
        return any(_has_group(i) for a in item[1] for i in a)
    if k in ('MAX_REPEAT', 'MIN_REPEAT', 'POSSESSIVE_REPEAT'):
        return any(_has_group(i) for i in item[3])
    if k in ('ASSERT', 'ASSERT_NOT'):
        return any(_has_group(i) for i in item[2])
    if k == 'ATOMIC':
        return any(_has_group(i) for i in item[1])
    return False


def canon(seq):
    out = []
    for op, av in seq:
        if op is sc.IN:
            out.append(_canon_in(av))
        elif op is sc.LITERAL:
            out.append(('SET', ((av, av),)))
        elif op is sc.NOT_LITERAL:
            out.append(('SET', compl([(av, av)])))
        elif op is sc.ANY:
            # flags are always M|S here: '.' matches every code point
            out.append(('SET', ((0, MAXCP),)))
        elif op is sc.BRANCH:
            out.extend(_branch([canon(x) for x in av[1]]))
        elif op in (sc.MAX_REPEAT, sc.MIN_REPEAT, sc.POSSESSIVE_REPEAT):
            lo, hi, body = av
            out.append((str(op), int(lo), int(hi), canon(body)))
        elif op is sc.SUBPATTERN:
            group, add, dele, p = av
            if group is None and not add and not dele:
                out.extend(canon(p))
            else:
                out.append(('SUB', group, int(add), int(dele), canon(p)))
        elif op in (sc.ASSERT, sc.ASSERT_NOT):
            out.append((str(op), av[0], canon(av[1])))
        elif op is sc.AT:
            out.append(('AT', str(av)))
        elif op is sc.GROUPREF:
            out.append(('REF', av))
        elif op is sc.GROUPREF_EXISTS:
            out.append(('COND', av[0], canon(av[1]), canon(av[2]) if av[2] else None))
        elif op is sc.ATOMIC_GROUP:
            out.append(('ATOMIC', canon(av)))
        else:
            out.append((str(op), repr(av)))
    return tuple(out)


class Parsed:
    __slots__ = ('text', 'tree', 'canon', 'groups', 'groupdict', 'error', 'width', 'key')

    def __init__(self, text):
        self.text = text
        self.error = None
        self.tree = self.canon = None
        self.groups = 0
        self.groupdict = {}
        self.width = None
        self.key = None
        try:
            t = sp.parse(text, FL)
            self.tree = t
            self.groups = t.state.groups - 1
            self.groupdict = dict(t.state.groupdict)
            self.width = tuple(int(x) for x in t.getwidth())
            self.canon = canon(t)
            self.key = (self.canon, self.groups, tuple(sorted(self.groupdict.items())))
        except re.error as e:
            self.error = re.sub(r' at position \d+.*', '', str(e))
            self.error = re.sub(r"\(\?P[<=][^)>]*[>)]?|'[^']*'|\d+", '#', self.error)
        except RecursionError:
            self.error = 'parser-recursion'
        except OverflowError:
            self.error = 'overflow'


_pcache = {}


def parse(text):
    p = _pcache.get(text)
    if p is None:
        if len(_pcache) > 50000:
            _pcache.clear()
        p = _pcache[text] = Parsed(text)
    return p


def canon_of(text):
    """canonical tree + group count + names: equal keys => same program for the engine"""
    p = parse(text)
    if p.error:
        raise re.error(p.error)
    return p.key


def compiles(text):
    try:
        return re.compile(text, FL), None
    except re.error as e:
        msg = re.sub(r' at position \d+.*', '', str(e))
        msg = re.sub(r"\(\?P[<=][^)>]*[>)]?|'[^']*'|\d+", '#', msg)
        return None, msg
    except RecursionError:
        return None, 'compiler-recursion'
    except OverflowError:
        return None, 'overflow'


# ----------------------------------------------------------------- O4 full-range class scan
_ALL = None


def all_chars():
    global _ALL
    if _ALL is None:
        _ALL = ''.join(map(chr, range(MAXCP + 1)))
    return _ALL


_scan_cache = {}


def scan(text):
    """interval set of all code points c such that the pattern `text` matches chr(c)
    as a single character (the pattern is assumed to be one character wide)."""
    r = _scan_cache.get(text)
    if r is None:
        c = re.compile('(?:%s)+' % text, re.S)
        r = tuple((m.start(), m.end() - 1) for m in c.finditer(all_chars()))
        if len(_scan_cache) > 20000:
            _scan_cache.clear()
        _scan_cache[text] = r
    return r


_MASK = None


def mask():
    """code points that only the Unicode-aware shorthands add (left unspecified by C06/C07)"""
    global _MASK
    if _MASK is None:
        d = diff(scan(r'\d'), ASCII['CATEGORY_DIGIT'])
        s = diff(scan(r'\s'), ASCII['CATEGORY_SPACE'])
        w = diff(scan(r'\w'), ASCII['CATEGORY_WORD'])
        _MASK = union(union(d, s), w)
    return _MASK


_NOTMASK = None


def unmask(iv):
    """iv minus the unspecified code points (iv must be normalised)"""
    global _NOTMASK
    if _NOTMASK is None:
        _NOTMASK = compl(mask())
    a, b = iv, _NOTMASK
    out = []
    i = j = 0
    na, nb = len(a), len(b)
    while i < na and j < nb:
        lo = a[i][0] if a[i][0] > b[j][0] else b[j][0]
        hi = a[i][1] if a[i][1] < b[j][1] else b[j][1]
        if lo <= hi:
            out.append((lo, hi))
        if a[i][1] < b[j][1]:
            i += 1
        else:
            j += 1
    return tuple(out)


def uses_shorthand(text):
    return re.search(r'(?<!\\)(?:\\\\)*\\[dswDSW]', text) is not None


def set_of_single(text):
    """if `text` parses to exactly one SET item, return its interval set (ASCII-based), else None"""
    p = parse(text)
    if p.error or p.canon is None:
        return None
    if len(p.canon) == 1 and p.canon[0][0] == 'SET':
        return p.canon[0][1]
    return None


def selftest():
    C = canon_of
    assert C('[A-Za-z]') == C('[\\u0041-\\u005a\\u0061-\\u007a]')
    assert C(r'\d') == C('[0-9]') and C(r'\D') == C('[^0-9]')
    assert C('(?:a|b)c') == C('(?:(?:a)|(?:b))(?:c)')
    assert C('a') == C('[a]') and C('.') == C('[\\x00-\\U0010ffff]')
    assert C('x|y|ab') == C('(?:x|y)|ab') == C('(?:x)|(?:(?:y)|(?:ab))')
    assert C('ab|ac') == C('(?:ab)|(?:ac)') == C('(?:(?:a)(?:b))|(?:(?:a)(?:c))')
    assert C('(?:ab)?') != C('ab?') and C('a|bc') != C('(?:a|b)c')
    assert C('(a)') != C('(?:a)') and C('(?P<n>a)') != C('(?P<m>a)')
    assert C('(?i:a)b') != C('(?i:ab)') and C('a*?') != C('a*')
    assert C('a{2,3}') == C('(?:a){2,3}') != C('a{2,4}')
    assert C('(?<=a)b') != C('(?<!a)b') and C('a(?=b)') != C('ab')
    assert C('^a') != C('\\Aa') and C('a$') != C('a\\Z')
    # interval algebra against brute force
    import random
    rnd = random.Random(7)
    for _ in range(300):
        def rs():
            return [(lo, lo + rnd.randrange(0, 9)) for lo in (rnd.randrange(0, 60) for _ in range(rnd.randrange(0, 5)))]
        a, b = rs(), rs()
        A, B = brute_set(a), brute_set(b)
        assert brute_set(union(a, b)) == A | B
        assert brute_set(inter(a, b)) == A & B
        assert brute_set(diff(a, b)) == A - B
        assert brute_set(compl(a)) & set(range(0, 100)) == set(range(0, 100)) - A
        n = norm(a)
        assert all(n[i][1] + 1 < n[i + 1][0] for i in range(len(n) - 1))
    assert scan('[a-c]') == ((97, 99),) and scan('.') == ((0, MAXCP),)
    assert scan('[^a]') == ((0, 96), (98, MAXCP))
    m = mask()
    assert size(m) > 1000 and inter(m, ((0, 127),)) == ((28, 31),)
    return True
