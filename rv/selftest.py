"""setup_cmd: checks of the monitors' own trusted parts (DESIGN.md section 3.11)."""
import random
import re
import sys


def main():
    from . import canon as C, shadow as S, gen as G, load_pregex
    assert sys.version_info[:2] >= (3, 11), 'needs CPython >= 3.11 (re._parser)'
    C.selftest()
    load_pregex()
    # reference renderer round trip: ref(Lit(s)) exactly matches s and nothing near it
    rnd = random.Random(1)
    n = 0
    for s in G.hostile_strings('quick', rnd):
        if not s:
            continue
        r = re.compile(S.ref(S.Lit(s)), C.FL)
        assert r.fullmatch(s), s
        for t in (s[:-1], s + s[-1], s.swapcase() if s.swapcase() != s else s + 'x', 'x' + s):
            assert not r.fullmatch(t), (s, t)
        p = C.parse(S.ref(S.Lit(s)))
        assert p.canon == tuple(('SET', ((ord(c), ord(c)),)) for c in s), s
        n += 1
    # class reference round trip
    for iv in [((97, 99),), ((0, 0), (10, 10), (91, 94)), ((0, C.MAXCP),), C.compl(((36, 36),)), ((0x1F600, 0x1F64F),)]:
        assert C.set_of_single(S.cls_ref(iv)) == C.norm(iv), iv
    # transfer functions: a few documented laws
    a, e = S.Lit('a'), S.EMPTY
    assert S.cat([e, a, e]) is a and S.alt([a, e]) is a and S.quant(e, 2, 5) is e and S.quant(a, 1, 1) is a
    assert S.quant(a, 0, 0) is e and S.capture(e, 'n') is e and S.group(e, True) is e
    assert S.capture(S.capture(a, 'x'), 'y').name == 'y' and S.capture(S.capture(a, 'x')).name == 'x'
    assert S.group(S.capture(a, 'x')).k == 'Grp' and S.capture(S.group(a)).k == 'Cap'
    try:
        S.look('npre', a, e)
        assert False
    except S.Expect as x:
        assert x.names == (S.T_EMPTYNEG,)
    try:
        S.look('pre', a, S.alt([S.Lit('a'), S.Lit('bc')]))
        assert False
    except S.Expect as x:
        assert x.names == (S.T_WIDTH,)
    assert S.look('pre', a, S.alt([S.Lit('ab'), S.Lit('cd')])).k == 'Look'
    print('selftest ok: %d literals round-tripped' % n)
    return 0


if __name__ == '__main__':
    sys.exit(main())
