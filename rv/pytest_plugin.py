"""pytest plugin (W10): run the repository's own tests with the monitors installed.

  cd /repo && PYTHONPATH=/verif PREGEX_RV=1 PREGEX_RV_OUT=<file> python -m pytest -p rv.pytest_plugin tests/

With PREGEX_RV unset the plugin does nothing.
"""
import json
import os

ON = os.environ.get('PREGEX_RV') == '1'
if ON:
    from rv import wrap
    wrap.install()


def pytest_sessionfinish(session, exitstatus):
    if not ON:
        return
    s = wrap.summary()
    s['pytest_exitstatus'] = int(exitstatus)
    s['tests_collected'] = getattr(session, 'testscollected', None)
    s['tests_failed'] = getattr(session, 'testsfailed', None)
    out = os.environ.get('PREGEX_RV_OUT')
    if out:
        with open(out, 'w') as f:
            json.dump(s, f, default=str)
    print('\n[rv] boundary=%d nested=%d api=%d verdicts=%s violations=%d' % (
        s['boundary_events'], s['nested_events'], s['api_calls_checked'], s['verdicts'], s['n_violations']))
