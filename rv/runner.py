"""Coordinator: shards a check over worker subprocesses, merges what the monitors observed,
confirms / shrinks / classifies violations, writes the evidence file and decides the exit code."""
import json
import os
import shutil
import subprocess
import sys
import time

from . import VERIF_DIR, REPO_DIR, SRC_DIR, checks, findings

PY = sys.executable
OUT = os.path.join(VERIF_DIR, 'out')


def _env(hashseed):
    e = dict(os.environ)
    e['PYTHONHASHSEED'] = str(hashseed)
    e['PYTHONDONTWRITEBYTECODE'] = '1'
    e['PREGEX_RV'] = '1'
    return e


def spawn(job, tag, hashseed, outdir):
    jf = os.path.join(outdir, tag + '.job.json')
    rf = os.path.join(outdir, tag + '.res.json')
    if os.path.exists(rf):
        os.remove(rf)
    with open(jf, 'w') as f:
        json.dump(job, f, default=repr)
    log = open(os.path.join(outdir, tag + '.log'), 'w')
    p = subprocess.Popen([PY, '-W', 'ignore', '-m', 'rv.worker', jf, rf], cwd=VERIF_DIR, env=_env(hashseed),
                         stdout=log, stderr=subprocess.STDOUT)
    return {'p': p, 'rf': rf, 'log': log, 'tag': tag, 'job': job, 'hashseed': hashseed, 't0': time.time()}


def collect(procs, timeout):
    """wait for workers; returns list of (proc-info, result or None)"""
    out = []
    deadline = time.time() + timeout
    for pi in procs:
        left = max(0.5, deadline - time.time())
        try:
            pi['p'].wait(timeout=left)
        except subprocess.TimeoutExpired:
            pi['p'].kill()
            pi['p'].wait()
            pi['timed_out'] = True
        pi['log'].close()
        res = None
        if os.path.exists(pi['rf']):
            try:
                res = json.load(open(pi['rf']))
            except Exception:
                res = None
        out.append((pi, res))
    return out


def run_jobs(jobs, outdir, timeout, parallel=16):
    """jobs: list of (tag, job, hashseed). keeps at most `parallel` workers running; each has `timeout` seconds."""
    results = {}
    pending = list(jobs)
    running = []
    order = [t for t, _, _ in jobs]
    while pending or running:
        while pending and len(running) < parallel:
            tag, job, hs = pending.pop(0)
            running.append(spawn(job, tag, hs, outdir))
        time.sleep(0.05)
        still = []
        for pi in running:
            rc = pi['p'].poll()
            if rc is None and time.time() - pi['t0'] > timeout:
                pi['p'].kill()
                pi['p'].wait()
                pi['timed_out'] = True
                rc = -9
            if rc is None:
                still.append(pi)
                continue
            pi['log'].close()
            res = None
            if os.path.exists(pi['rf']):
                try:
                    res = json.load(open(pi['rf']))
                except Exception:
                    res = None
            results[pi['tag']] = (pi, res)
        running = still
    return [results[t] for t in order]


def run_check(check, tier, seed, replay_path=None):
    t0 = time.time()
    if check not in checks.SPEC:
        print('unknown check', check)
        return 2
    mod = checks.module_of(check)
    outdir = os.path.join(OUT, check)
    shutil.rmtree(outdir, ignore_errors=True)
    os.makedirs(outdir, exist_ok=True)
    os.makedirs(os.path.join(OUT, 'replay'), exist_ok=True)
    tp = dict(checks.TIERS[tier])
    tp.update(getattr(mod, 'TIER_OVERRIDES', {}).get(check, {}).get(tier, {}))
    nsh = tp['nshards']
    hss = tp['hashseeds']
    plan = getattr(mod, 'plan', None)
    jobs = []
    if plan is not None:
        for tag, job, hs in plan(check, tier, seed, tp):
            job.update({'mode': 'shard', 'check': check, 'tier': tier, 'seed': seed, 'watchdog': tp['shard_timeout'] - 5,
                        'budget': tp['budget']})
            jobs.append((tag, job, hs))
    else:
        for sh in range(nsh):
            hs = hss[sh % len(hss)]
            jobs.append(('shard%02d' % sh, {'mode': 'shard', 'check': check, 'tier': tier, 'seed': seed, 'shard': sh,
                                            'nshards': nsh, 'watchdog': tp['shard_timeout'] - 5, 'budget': tp['budget']}, hs))
    results = run_jobs(jobs, outdir, tp['shard_timeout'])
    # ---- merge
    merged = {'evaluations': 0, 'cases': 0, 'keys': set(), 'violations': [], 'viol_counts': {}, 'other': {}, 'stats': {},
              'by_op': {}, 'samples': [], 'monitor_errors': [], 'timeouts': 0, 'truncated': 0, 'functions_reached': set(),
              'hashseeds': set(), 'extra': {}}
    failed = []
    shard_results = []
    for pi, res in results:
        if res is None or not res.get('ok'):
            failed.append((pi['tag'], 'timeout' if pi.get('timed_out') else (res or {}).get('error', 'no result (crashed?)')))
            continue
        shard_results.append((pi, res))
        merged['evaluations'] += res.get('evaluations', 0)
        merged['cases'] += res.get('cases', 0)
        merged['keys'].update(res.get('keys', []))
        for v in res.get('violations', []):
            v['hashseed'] = pi['hashseed']
            v['job'] = pi['job']
            v['job_tag'] = pi['tag']
            merged['violations'].append(v)
        for k, n in res.get('viol_counts', {}).items():
            merged['viol_counts'][k] = merged['viol_counts'].get(k, 0) + n
        for k, n in res.get('other_property_violations', {}).items():
            merged['other'][k] = merged['other'].get(k, 0) + n
        for k, n in res.get('stats', {}).items():
            merged['stats'][k] = merged['stats'].get(k, 0) + n
        for k, n in res.get('by_op', {}).items():
            merged['by_op'][k] = merged['by_op'].get(k, 0) + n
        merged['samples'] += res.get('samples', [])[:2]
        merged['monitor_errors'] += res.get('monitor_errors', [])
        merged['timeouts'] += res.get('timeouts', 0)
        merged['truncated'] += 1 if res.get('truncated') else 0
        merged['functions_reached'].update(res.get('functions_reached', []))
        merged['hashseeds'].add(pi['hashseed'])
        for k, v in res.get('extra', {}).items():
            if isinstance(v, (int, float)):
                merged['extra'][k] = merged['extra'].get(k, 0) + v
            elif isinstance(v, list):
                merged['extra'].setdefault(k, [])
                merged['extra'][k] += v
            elif isinstance(v, dict):
                d = merged['extra'].setdefault(k, {})
                for kk, vv in v.items():
                    d[kk] = d.get(kk, 0) + vv if isinstance(vv, (int, float)) else vv
    # ---- offline cross-shard checks (seed / order independence)
    cross = getattr(mod, 'cross_check', None)
    if cross is not None:
        extra_v, extra_info = cross(check, shard_results)
        merged['violations'] += extra_v
        for v in extra_v:
            merged['viol_counts'][v['sig']] = merged['viol_counts'].get(v['sig'], 0) + 1
        merged['extra'].update(extra_info)
    # ---- violations: confirm -> shrink -> classify
    kf = findings.load()
    by_sig = {}
    for v in merged['violations']:
        by_sig.setdefault(v['sig'], []).append(v)
    reports = []
    flaky = 0
    # violations first seen under an *injected* set order: drop when the same signature was also seen
    # under a real hash seed, otherwise search real PYTHONHASHSEED values for a reproduction
    unconfirmed_orders = 0
    for sig in [s_ for s_ in by_sig if s_.endswith('|injected-order')]:
        base = sig[:-len('|injected-order')]
        if base in by_sig:
            del by_sig[sig]
            continue
        v = by_sig[sig][0]
        n = 48 if tier == 'quick' else 3000
        found = None
        case = dict(v['case'])
        case['inject'] = None
        for start in range(1, n, 48):
            sj = [('seedsearch%04d' % h, {'mode': 'replay', 'check': check, 'case': case, 'seed': seed, 'watchdog': 60}, h)
                  for h in range(start, min(start + 48, n + 1))]
            for pi, res in run_jobs(sj, outdir, 70):
                if res and res.get('ok') and res.get('violations'):
                    found = pi['hashseed']
                    break
            if found is not None:
                break
        del by_sig[sig]
        if found is None:
            unconfirmed_orders += 1
            merged['extra'].setdefault('order_sensitivity_unconfirmed', []).append(
                {'sig': sig, 'program': v.get('show'), 'symptom': v.get('symptom'), 'seeds_tried': n})
        else:
            v = dict(v)
            v['case'] = case
            v['hashseed'] = found
            v['sig'] = base
            by_sig[base] = [v]
            merged['viol_counts'][base] = merged['viol_counts'].get(sig, 1)
    to_process = list(by_sig.items())[:24]
    cjobs = []
    for i, (sig, vs) in enumerate(to_process):
        v = vs[0]
        cjobs.append(('confirm%02d' % i, {'mode': 'replay', 'check': check, 'case': v['case'], 'seed': seed,
                                          'watchdog': 60}, v['hashseed']))
    cres = run_jobs(cjobs, outdir, 70) if cjobs else []
    sjobs = []
    confirmed = []
    for (sig, vs), (pi, res) in zip(to_process, cres):
        v = vs[0]
        if v.get('no_replay'):
            confirmed.append((sig, v))
            continue
        if res is None or not res.get('ok'):
            # the replay process itself died (e.g. hard crash): that is a reproduction of a crash symptom
            if pi.get('timed_out'):
                flaky += 1
                continue
            confirmed.append((sig, v))
            continue
        if not res.get('violations'):
            v['needs_history'] = True
            continue
        confirmed.append((sig, v))
    # a violation that does not show when its case is replayed alone in a fresh process may need the
    # history of the shard it was seen in (state shared between objects or across calls): re-run that
    # shard in a fresh process and look for the same signature again
    hist = [(sig, vs[0]) for (sig, vs) in to_process if vs[0].get('needs_history') and vs[0].get('job')]
    hjobs = {}
    for sig, v in hist:
        hjobs.setdefault(v['job_tag'], (v['job'], v['hashseed']))
    hres = run_jobs([('rerun.' + t, dict(j), hs) for t, (j, hs) in hjobs.items()], outdir, tp['shard_timeout']) if hjobs else []
    rerun_sigs = {}
    for pi, res in hres:
        if res and res.get('ok'):
            rerun_sigs[pi['tag'][len('rerun.'):]] = set(x['sig'] for x in res.get('violations', [])) | set(res.get('viol_counts', {}))
    for sig, v in hist:
        if sig in rerun_sigs.get(v['job_tag'], set()):
            v = dict(v)
            v['no_replay'] = True
            v['case'] = {'kind': 'shard-rerun', 'job': v['job'], 'hashseed': v['hashseed'], 'sig': sig, 'first_seen_case': v.get('case'),
                         'note': 'needs the call history of its shard: the case alone, in a fresh process, is clean'}
            confirmed.append((sig, v))
        else:
            flaky += 1
    for i, (sig, v) in enumerate(confirmed):
        if v.get('no_replay'):
            continue
        sjobs.append(('shrink%02d' % i, {'mode': 'shrink', 'check': check, 'case': v['case'], 'symptom': v['symptom'],
                                         'seed': seed, 'watchdog': 80, 'time': 30, 'recursionlimit': 1000}, v['hashseed']))
    sres = run_jobs(sjobs, outdir, 90) if sjobs else []
    sres_by_tag = {pi['tag']: res for pi, res in sres}
    nrep = 0
    known_hits = {}
    for i, (sig, v) in enumerate(confirmed):
        res = sres_by_tag.get('shrink%02d' % i)
        small = v['case']
        sv = v
        if res and res.get('ok') and res.get('violation'):
            small = res['case']
            sv = dict(v)
            sv.update(res['violation'])
        feats = mod.features(small, sv) if hasattr(mod, 'features') else []
        entry = findings.match(kf, check, sv.get('symptom'), feats)
        if entry is not None:
            known_hits[entry['id']] = known_hits.get(entry['id'], 0) + merged['viol_counts'].get(sig, 1)
            continue
        nrep += 1
        rp = os.path.join(OUT, 'replay', '%s-%d.json' % (check, nrep))
        with open(rp, 'w') as f:
            json.dump({'property': check, 'case': small, 'original_case': v['case'], 'seed': seed,
                       'hashseed': v['hashseed'], 'symptom': sv.get('symptom'), 'detail': sv.get('detail'),
                       'features': feats, 'sig': sig}, f, indent=1, default=repr)
        reports.append((rp, sv, small, feats, merged['viol_counts'].get(sig, 1)))
    unprocessed = max(0, len(by_sig) - len(to_process))
    # ---- pinned witnesses of open known findings
    known_lines = []
    for e in kf.get('open', []):
        if e['property'] != check:
            continue
        still = findings.witness_fails(mod, e, check, seed)
        if still:
            known_lines.append('KNOWN-FINDING: property=%s %s [%s]' % (check, e['what'], e['id']))
    # ---- verdict
    title = checks.SPEC[check][1]
    distinct = len(merged['keys']) + int(merged['extra'].get('distinct_nontrivial', 0)) + int(merged['extra'].get('distinct_judged_questions', 0))
    minimum = checks.SPEC[check][3]
    inconclusive = []
    if failed:
        # a shard that died/timed out observed nothing: that is inconclusive, unless others found violations
        inconclusive.append('%d shard(s) gave no result: %s' % (len(failed), '; '.join('%s: %s' % (t, str(w).strip().splitlines()[-1][:160]) for t, w in failed[:3])))
    if merged['monitor_errors']:
        inconclusive.append('monitor errors: %s' % merged['monitor_errors'][0][:200])
    if distinct < minimum and tier == 'thorough' or distinct < max(2, minimum // 10):
        inconclusive.append('only %d distinct non-trivial events observed (minimum %d)' % (distinct, minimum))
    if merged['cases'] and merged['timeouts'] > 0.01 * merged['cases'] + 2:
        inconclusive.append('%d watchdog timeouts in %d cases' % (merged['timeouts'], merged['cases']))
    if merged['stats'].get('w10-tests-not-green'):
        inconclusive.append("the repository's own tests did not pass with the monitors installed (transparency)")
    if flaky:
        inconclusive.append('%d violation(s) did not reproduce in a fresh process' % flaky)
    wall = time.time() - t0
    ev = {
        'property_id': check, 'tier': tier, 'seed': seed, 'level': 'exploration',
        'coverage': {
            'evaluations': int(merged['evaluations']),
            'distinct_nontrivial': int(distinct),
            'rule': checks.SPEC[check][2],
            'samples': merged['samples'][:8] or [{'note': 'no sample recorded'}],
            'cases': merged['cases'],
            'verdicts': merged['stats'],
            'events_by_op': dict(sorted(merged['by_op'].items(), key=lambda kv: -kv[1])[:80]),
            'violations_by_signature': merged['viol_counts'],
            'violations_of_other_properties_seen': merged['other'],
            'known_findings_hit': known_hits,
            'hashseeds': sorted(merged['hashseeds']),
            'shards': len(jobs), 'shards_failed': len(failed), 'shards_truncated_by_budget': merged['truncated'],
            'timeouts': merged['timeouts'],
            'functions_reached': sorted(merged['functions_reached'])[:400],
            'extra': merged['extra'],
            'exhaustive': False,
        },
        'assumptions': ['CPython %s re/_parser/_sre as trusted base' % sys.version.split()[0],
                        'transfer functions transcribe the documented semantics (DESIGN.md 3.3)',
                        'tree under test: ' + SRC_DIR],
        'wall_s': round(wall, 2),
        'violations': len(reports) + unprocessed,
    }
    os.makedirs(os.path.join(VERIF_DIR, 'evidence'), exist_ok=True)
    with open(os.path.join(VERIF_DIR, 'evidence', check + '.json'), 'w') as f:
        json.dump(ev, f, indent=1, default=str)
    print('%s (%s) tier=%s seed=%d: %d cases, %d judged events, %d distinct non-trivial, verdicts=%s, %.1fs'
          % (check, title, tier, seed, merged['cases'], merged['evaluations'], distinct,
             {k: v for k, v in sorted(merged['stats'].items())}, wall))
    for l in known_lines:
        print(l)
    if reports or unprocessed:
        for rp, sv, small, feats, cnt in reports:
            print('VIOLATION property=%s replay=%s' % (check, rp))
            print('   symptom=%s (x%d) %s' % (sv.get('symptom'), cnt, (sv.get('detail') or '')[:300]))
            print('   witness=%s' % json.dumps(small, ensure_ascii=True)[:600])
        if unprocessed:
            print('   (+%d further violation signatures not processed)' % unprocessed)
        return 1
    if inconclusive:
        for r in inconclusive:
            print('INCONCLUSIVE property=%s reason=%s' % (check, r))
        return 2
    print('HELD property=%s on everything explored' % check)
    return 0


def replay_file(check, path):
    d = json.load(open(path))
    hs = str(d.get('hashseed', 0))
    if os.environ.get('PYTHONHASHSEED') != hs:
        e = _env(hs)
        return subprocess.call([PY, '-W', 'ignore', '-m', 'rv.cli', check, '--replay', path], cwd=VERIF_DIR, env=e)
    mod = checks.module_of(check)
    if d['case'].get('kind') == 'shard-rerun':
        res = mod.run_shard(dict(d['case']['job']))
        sigs = set(x['sig'] for x in res.get('violations', [])) | set(res.get('viol_counts', {}))
        vs = [x for x in res.get('violations', []) if x['sig'] == d['case']['sig']] or \
            ([{'symptom': d.get('symptom'), 'detail': 'signature seen again'}] if d['case']['sig'] in sigs else [])
    else:
        vs = mod.replay(d['case'], check, d.get('seed', 0))
    if vs:
        for v in vs:
            print('VIOLATION property=%s replay=%s' % (check, path))
            print('   symptom=%s %s' % (v.get('symptom'), (v.get('detail') or '')[:400]))
        return 1
    print('replay: no violation of %s' % check)
    return 0
