"""Workloads that run under the external wrappers (rv.wrap) in their own process:
W9  - parameter sweeps over the pregex.meta.essentials constructors (each is hundreds of DSL calls),
W10 - the repository's own unit tests (pytest plugin) as a realistic workload and false-alarm guard.

usage: python -m rv.wrapload w9 <seed> <tier> <out.json>
"""
import json
import os
import random
import subprocess
import sys
import time

from . import VERIF_DIR, REPO_DIR, SRC_DIR


def w9_calls(rnd, tier):
    from . import meta as MT
    ME = MT.ME
    calls = []
    n = 40 if tier == 'quick' else 400
    for (a, b) in MT.boundary_ranges(rnd, n, include_big=False):
        v = rnd.choice(['Integer', 'PositiveInteger', 'NegativeInteger', 'UnsignedInteger'])
        kw = {'is_extensible': rnd.random() < 0.3}
        if v == 'Integer':
            kw['include_sign'] = rnd.random() < 0.5
        calls.append((v, (a, b), kw))
    for _ in range(n // 2):
        a = rnd.choice([0, 0, 1, 5, 10, 99])
        b = a + rnd.choice([0, 1, 9, 90, 1000, 99999])
        mn = rnd.choice([1, 2, 3])
        mx = rnd.choice([None, mn, mn + 2])
        v = rnd.choice(['Decimal', 'PositiveDecimal', 'NegativeDecimal', 'UnsignedDecimal'])
        calls.append((v, (a, b, mn, mx), {'is_extensible': rnd.random() < 0.3}))
    for base in range(2, 17):
        calls.append(('Numeral', (base, rnd.choice([0, 1, 2]), rnd.choice([None, 3, 5])), {'is_extensible': base % 2 == 0}))
    for mn, mx in ((1, None), (2, 5), (3, 3), (1, 1)):
        for g in (True, False):
            calls.append(('Word', (mn, mx), {'is_global': g, 'is_extensible': mn == 2}))
    aff = ['a.b', 'c|d', 'x$', '$', '(', 'a)', '[x', '\\', 'a+', '?', '^a', 'ing', 'ed', 'pre', 'é']
    for cls in ('WordContains', 'WordStartsWith', 'WordEndsWith'):
        for _ in range(8):
            calls.append((cls, (rnd.sample(aff, rnd.choice([1, 2, 3])),), {'is_global': rnd.random() < 0.5, 'is_extensible': rnd.random() < 0.5}))
        calls.append((cls, ('x$',), {}))
    fmts = MT.date_formats()
    for f in fmts:
        calls.append(('Date', (f,), {'is_extensible': rnd.random() < 0.5}))
    calls.append(('Date', (), {}))
    for _ in range(6):
        calls.append(('Date', (rnd.sample(fmts, rnd.choice([2, 5, 12])),), {}))
    for ext in (False, True):
        calls.append(('IPv4', (), {'is_extensible': ext}))
        calls.append(('IPv6', (), {'is_extensible': ext}))
    for name in ('Text', 'NonWhitespace', 'Whitespace'):
        for o in (False, True):
            calls.append((name, (o,), {}))
    for name in ('Email', 'HttpUrl'):
        if hasattr(ME, name):
            for cap in (False, True):
                for ext in (False, True):
                    calls.append((name, (), {'capture_domain': cap, 'is_extensible': ext}))
    return calls


def run_w9(seed, tier):
    from . import wrap
    from . import meta as MT
    wrap.install(api=False)
    rnd = random.Random(seed * 13 + 9)
    t0 = time.time()
    ncalls = 0
    crashes = []
    for name, args, kw in w9_calls(rnd, tier):
        before = len(wrap.violations)
        try:
            getattr(MT.ME, name)(*args, **kw)
        except wrap.LIBEXC:
            pass
        except TypeError as e:
            if 'unexpected keyword' in str(e):
                try:
                    getattr(MT.ME, name)(*args)
                except Exception:
                    pass
            else:
                crashes.append((name, repr(args), repr(e)[:100]))
        except RecursionError as e:
            crashes.append((name, repr(args), 'RecursionError'))
        except Exception as e:
            crashes.append((name, repr(args), repr(e)[:100]))
        ncalls += 1
        for P, ev in wrap.violations[before:]:
            ev['case'] = {'kind': 'w9', 'ctor': name, 'args': list(args), 'kw': kw}
    s = wrap.summary()
    s['meta_constructor_calls'] = ncalls
    s['crashes'] = crashes[:20]
    s['wall'] = time.time() - t0
    return s


def run_w10(timeout=600):
    """the repository's own tests with the monitors on (in a subprocess, from the tree under test)"""
    out = os.path.join(VERIF_DIR, 'out', 'w10.%d.json' % os.getpid())
    os.makedirs(os.path.dirname(out), exist_ok=True)
    env = dict(os.environ, PREGEX_RV='1', PREGEX_RV_OUT=out, PYTHONDONTWRITEBYTECODE='1')
    env['PYTHONPATH'] = VERIF_DIR + os.pathsep + SRC_DIR
    tests = os.path.join(os.path.dirname(SRC_DIR), 'tests')
    if not os.path.isdir(tests):
        tests = os.path.join(REPO_DIR, 'tests')
    r = subprocess.run([sys.executable, '-W', 'ignore', '-m', 'pytest', '-q', '-x', '-p', 'rv.pytest_plugin', '-p', 'no:cacheprovider',
                        '--rootdir', os.path.dirname(tests), tests], cwd=os.path.dirname(tests), env=env, capture_output=True, text=True,
                       timeout=timeout)
    s = {'pytest_returncode': r.returncode, 'tail': r.stdout[-400:]}
    if os.path.exists(out):
        s.update(json.load(open(out)))
        os.remove(out)
    return s


if __name__ == '__main__':
    kind, seed, tier, outp = sys.argv[1], int(sys.argv[2]), sys.argv[3], sys.argv[4]
    res = run_w9(seed, tier) if kind == 'w9' else run_w10()
    with open(outp, 'w') as f:
        json.dump(res, f, default=str)
