"""Runtime-monitoring framework for manoss96/pregex (see /verif/DESIGN.md)."""
import os, sys

VERIF_DIR = os.path.dirname(os.path.dirname(os.path.abspath(__file__)))
REPO_DIR = os.environ.get("PREGEX_RV_REPO", "/repo")
SRC_DIR = os.environ.get("PREGEX_RV_SRC", os.path.join(REPO_DIR, "src"))


def load_pregex():
    """Import the tree under test from SRC_DIR and make sure that is what we got."""
    if SRC_DIR not in sys.path:
        sys.path.insert(0, SRC_DIR)
    import warnings
    warnings.simplefilter("ignore")
    import pregex
    import pregex.core.pre  # noqa
    f = os.path.realpath(pregex.core.pre.__file__)
    if not f.startswith(os.path.realpath(SRC_DIR) + os.sep):
        raise RuntimeError("pregex imported from %s, expected under %s" % (f, SRC_DIR))
    return pregex
