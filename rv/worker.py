"""Worker process: runs one shard / one replay / one shrink job of a check and writes JSON.

usage: python -m rv.worker <job.json> <result.json>
"""
import faulthandler
import json
import os
import sys
import time
import traceback


def main():
    job = json.load(open(sys.argv[1]))
    out_path = sys.argv[2]
    faulthandler.enable()
    if job.get('watchdog'):
        faulthandler.dump_traceback_later(job['watchdog'], exit=True)
    sys.setrecursionlimit(job.get('recursionlimit', 1000))
    from . import instrument  # noqa: starts function-entry coverage when PREGEX_RV=1
    from . import checks
    mod = checks.module_of(job['check'])
    res = {'ok': False}
    t0 = time.time()
    try:
        if job['mode'] == 'shard':
            res = mod.run_shard(job)
        elif job['mode'] == 'replay':
            res = {'violations': mod.replay(job['case'], job['check'], job.get('seed', 0))}
        elif job['mode'] == 'shrink':
            from . import shrink
            res = shrink.shrink(mod, job)
        res['ok'] = True
    except Exception:
        res = {'ok': False, 'error': traceback.format_exc()[-3000:]}
    res['wall'] = time.time() - t0
    res['hashseed'] = os.environ.get('PYTHONHASHSEED')
    try:
        from . import instrument
        res['functions_reached'] = instrument.functions_reached()
    except Exception:
        pass
    tmp = out_path + '.tmp'
    with open(tmp, 'w') as f:
        json.dump(res, f, default=repr)
    os.replace(tmp, out_path)


if __name__ == '__main__':
    main()
