"""./check <ID|selftest> [quick|thorough] [--seed N] [--replay FILE]"""
import os
import sys


def main(argv):
    if not argv:
        print(__doc__)
        return 2
    check = argv[0]
    tier = os.environ.get('VERIF_TIER', 'quick')
    seed = int(os.environ.get('VERIF_SEED', '0') or 0)
    replay = None
    i = 1
    while i < len(argv):
        a = argv[i]
        if a in ('quick', 'thorough'):
            tier = a
        elif a == '--seed':
            i += 1
            seed = int(argv[i])
        elif a == '--replay':
            i += 1
            replay = argv[i]
        i += 1
    if check == 'selftest':
        from . import selftest
        return selftest.main()
    from . import runner
    if replay:
        return runner.replay_file(check, replay)
    return runner.run_check(check, tier, seed)


if __name__ == '__main__':
    sys.exit(main(sys.argv[1:]))
